#!/venv/bin/python
"""Entry point: ./check <ID> --tier quick|thorough [--replay FILE]."""
import os
import sys

# interpreter variant of this process: "" (default options), "O" (python -O: asserts stripped), "W" (python -b, and
# every warning attributed to an msmart module is an error - `-W error`, pytest's filterwarnings=error)
_VARIANT = os.environ.get("VERIF_PYVARIANT", "")
_FLAGS = {"": [], "O": ["-O"], "W": ["-b"]}.get(_VARIANT, [])
if os.environ.get("PYTHONHASHSEED") is None or os.environ.get("VERIF_PYVARIANT_ACTIVE", "") != _VARIANT:
    # fixed hash seed: set/dict iteration order inside the library cannot perturb a run
    os.environ["PYTHONHASHSEED"] = "0"
    os.environ["VERIF_PYVARIANT_ACTIVE"] = _VARIANT
    os.execv(sys.executable, [sys.executable, "-B"] + _FLAGS + sys.argv)

sys.dont_write_bytecode = True
sys.path.insert(0, os.path.dirname(os.path.abspath(__file__)))
from simkit import runner  # noqa: E402

if __name__ == "__main__":
    sys.exit(runner.main(sys.argv[1:]))
