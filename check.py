#!/venv/bin/python
"""Entry point: ./check <ID> --tier quick|thorough [--replay FILE]."""
import os
import sys

if os.environ.get("PYTHONHASHSEED") is None:
    # fixed hash seed: set/dict iteration order inside the library cannot perturb a run
    os.environ["PYTHONHASHSEED"] = "0"
    os.execv(sys.executable, [sys.executable] + sys.argv)

sys.dont_write_bytecode = True
sys.path.insert(0, os.path.dirname(os.path.abspath(__file__)))
from simkit import runner  # noqa: E402

if __name__ == "__main__":
    sys.exit(runner.main(sys.argv[1:]))
