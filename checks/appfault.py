"""Application-layer fault directives (C13 / C14): the reference device replaces or corrupts the
response frames of an exchange.  Directive field "app" (per data transmission):

  {"base": "honest"|"state"|"caps"|"caps2"|"props"|"props_ack"|"energy"|"humidity"|"random",
   "edit": [...edits...], "place": "alone"|"before_good"|"after_good"|"both"}

edits (applied to the body = bytes after the 10-byte header, before message id / check byte):
   ["trunc", n]            keep body[:n]
   ["set", pos, val]       body[pos % len] = val
   ["id", val]             body[0] = val
   ["rand", n, seed]       body = id byte + n deterministic bytes
   ["nomsgid"]             do not append a message id before the check byte
   ["rawframe", hex]       the whole frame is given (may be shorter than a header, or empty)
   ["corrupt", pos, delta, fixup]   after framing: frame[pos] ^= delta; fixup recomputes the outer checksum
   ["ftype", val]          frame type byte
"""
import hashlib

from refmodel import acmodel, codec
from refmodel.acmodel import FT_CONTROL, FT_QUERY


def _det(seed, n):
    out = b""
    c = 0
    while len(out) < n:
        out += hashlib.sha256(f"app|{seed}|{c}".encode()).digest()
        c += 1
    return out[:n]


def base_body(dev, base, req_body):
    if base == "state":
        return acmodel.encode_state(dev.state, dev.state_len), FT_QUERY
    if base == "caps":
        recs, add = dev.caps_pages[0]
        return acmodel.build_b5(recs, add), FT_QUERY
    if base == "caps2":
        recs, add = dev.caps_pages[1] if len(dev.caps_pages) > 1 else ([(0x0039, b"\x01")], False)
        return acmodel.build_b5(recs, add), FT_QUERY
    if base in ("props", "props_ack"):
        ids = sorted(dev.props) or [0x0009, 0x000A]
        items = [(pid, 0, acmodel.prop_store_value_for_read(pid, dev.props)) for pid in ids]
        rid = 0xB1 if base == "props" else 0xB0
        return acmodel.build_prop_reply(rid, items), (FT_QUERY if base == "props" else FT_CONTROL)
    if base == "energy":
        return acmodel.group_body(4, dev.energy if dev.energy is not None else bytes(16)), FT_QUERY
    if base == "humidity":
        return acmodel.group_body(5, dev.humidity if dev.humidity is not None else bytes(16)), FT_QUERY
    raise ValueError(base)


def build_bad(dev, spec, honest_frames, req):
    base = spec.get("base", "honest")
    ftype = FT_QUERY
    if base == "honest":
        if not honest_frames:
            return None
        f = honest_frames[0]
        body = f[10:-3]            # strip header, msg id, check byte, checksum
        ftype = f[9]
    elif base == "random":
        body = b"\x00"
    else:
        body, ftype = base_body(dev, base, req["body"] if req else b"")
    body = bytearray(body)
    msgid = True
    raw = None
    post = []
    for e in spec.get("edit", []):
        k = e[0]
        if k == "trunc":
            body = body[:e[1]]
        elif k == "set":
            if len(body):
                body[e[1] % len(body)] = e[2] & 0xFF
        elif k == "id":
            if len(body):
                body[0] = e[1] & 0xFF
            else:
                body = bytearray([e[1] & 0xFF])
        elif k == "rand":
            body = bytearray([body[0] if body else 0]) + bytearray(_det(e[2], e[1]))
        elif k == "nomsgid":
            msgid = False
        elif k == "rawframe":
            raw = bytes.fromhex(e[1])
        elif k == "ftype":
            ftype = e[1]
        elif k == "corrupt":
            post.append(e)
    if raw is not None:
        frame = raw
    else:
        b = bytes(body)
        if msgid:
            dev.msg_id = (dev.msg_id + 1) & 0xFF
            b += bytes([dev.msg_id])
        b = codec.body_with_crc(b) if dev.check_style == "crc" else codec.body_with_sum(b)
        frame = codec.frame_build(b, ftype)
    for e in post:
        _, pos, delta, fixup = e
        fb = bytearray(frame)
        p = pos % len(fb)
        fb[p] ^= (delta & 0xFF) or 1
        if fixup:
            fb[-1] = codec.twos_checksum(bytes(fb[1:-1]))
        frame = bytes(fb)
    return frame


def override(dev, req, frames, d):
    spec = d.get("app")
    if not spec:
        return frames
    bad = build_bad(dev, spec, frames, req)
    if bad is None:
        return frames
    dev._fire("app:" + spec.get("base", "honest") + ":" + ",".join(sorted({e[0] for e in spec.get("edit", [])})))
    dev.bad_frames = getattr(dev, "bad_frames", []) + [bad]
    place = spec.get("place", "alone")
    if place == "alone":
        return [bad]
    if place == "before_good":
        return [bad] + list(frames)
    if place == "after_good":
        return list(frames) + [bad]
    if place == "twice":
        return [bad, bad]
    if place == "bad_bad_good":
        return [bad, bad] + list(frames)
    if place == "many_then_good":
        # a burst of rejected frames ahead of the valid one (a unit that lost sync for a moment)
        return [bad] * int(spec.get("n", 12)) + list(frames)
    return [bad] + list(frames) + [bad]


def install(dev):
    dev.app_override = override


# a capability profile that makes refresh() issue all four queries
FULL_CAPS = [
    (0x0216, b"\x02"),      # energy stats (BCD)
    (0x021F, b"\x02"),      # humidity auto+manual
    (0x0009, b"\x01"), (0x000A, b"\x01"),   # swing angles
    (0x0039, b"\x01"),      # self clean
    (0x0048, b"\x02"),      # rate select 5 level
    (0x0043, b"\x01"),      # breeze control
    (0x00E3, b"\x01"),      # ieco
    (0x0214, b"\x01"), (0x0215, b"\x01"), (0x0210, b"\x01"), (0x0212, b"\x01"), (0x021A, b"\x01"),
    (0x0224, b"\x01"), (0x0217, b"\x01"), (0x0213, b"\x01"), (0x021E, b"\x01"),
]


def full_caps_config():
    return {"caps_pages": [[[(cid, v.hex()) for cid, v in FULL_CAPS], None]]}
