"""C01 - end-to-end fidelity: applied state reaches the device; device state is read back."""
import asyncio

from .common import (REAL_BASE, STUB_BASE, Result, Space, rand_id, rand_bytes, choose_cuts, SimDeadlock,
                     SimStepLimit)
from .session import Session, SET_MAP, compare_view, aux_mode_value

ID = "C01"
LEVEL = "exploration"
RULE = ("A case is (protocol version, device id, token/key + form, wall-clock epoch, initial device state, 1-2 client "
        "instances, 1-6 ops from {set+apply, refresh, toggle_display, device-side change, two concurrent refreshes}, "
        "per-exchange network directives: latency, V3 byte-level cuts/coalescing, unsolicited state/B5/unknown frames "
        "before/after the response, immediate and late duplicates). Distinct = distinct plan; non-trivial = at least "
        "one apply or refresh executed AND at least one network directive or second instance or device-side change."
        " Later additions: a bystander device/client pair in 20 % of the plans, wall-clock steps (also backwards) between operations, learned capability profiles, bursts of 15-70 packets in the response's segment, IPv6 peers, units that close the connection right behind their answer, reports with unmodelled flag bits.")
ASSUMPTIONS = [
    "SimTransport reproduces the asyncio.Transport contract (DESIGN 1.3)",
    "RefDevice decodes 0x40 / encodes 0xC0 by the vendor Lua layout with the choices of DESIGN 5.3",
    "verdict-bearing V2 schedules are packet-aligned; V2 stream segmentation is a recorded known finding",
    "an unsolicited non-state frame is only placed before the response when it shares the response's segment "
    "(or arrives while idle); the first-packet-wins shape is a recorded known finding with its own sub-workload",
    "no message loss and all latencies < 2 s here (loss and timing are C08's subject)",
]
COMPONENTS = {"real": REAL_BASE + ["AirConditioner.apply/refresh/toggle_display/authenticate -> LAN -> _LanProtocol[V3]"],
              "stub": STUB_BASE}

LATS = [1 / 1024, 1 / 1024, 0.05, 0.5, 1.0, 1.9]


def rand_state(rng):
    return {
        "power": rng.random() < 0.5, "mode": rng.randint(1, 6),
        "temp": rng.randint(26, 87) / 2.0, "fan": rng.choice([rng.randint(1, 102), 102, 100, 80, 60, 40, 20, 1]),
        "swing": rng.choice([0, 3, 0xC, 0xF]), "eco": rng.random() < 0.5, "turbo": rng.random() < 0.5,
        "sleep": rng.random() < 0.5, "fahrenheit": rng.random() < 0.5, "freeze": rng.random() < 0.5,
        "follow_me": rng.random() < 0.5, "purifier": rng.random() < 0.5, "humidity": rng.randint(0, 100),
        "aux": rng.randint(0, 2),
    }


def to_dev_state(s):
    d = {k: v for k, v in s.items() if k != "aux"}
    import hashlib as _h
    hv = _h.sha256(repr(sorted(s.items())).encode()).digest()
    if hv[0] % 3 == 0:
        # functions this client does not model are active on the unit (set from the remote control)
        d["spare"] = {"8": hv[1] & 0x1B, "9": hv[2] & 0xC7}
    d["aux_heat"] = s["aux"] == 1
    d["indep_aux"] = s["aux"] == 2
    return d


def client_sets(rng, full=False):
    s = rand_state(rng)
    m = {
        "power_state": s["power"], "operational_mode": s["mode"], "target_temperature": s["temp"],
        "fan_speed": s["fan"], "swing_mode": s["swing"], "eco": s["eco"], "turbo": s["turbo"],
        "sleep": s["sleep"], "fahrenheit": s["fahrenheit"], "freeze_protection": s["freeze"],
        "follow_me": s["follow_me"], "purifier": s["purifier"], "target_humidity": s["humidity"],
        "aux_mode": s["aux"],
    }
    if not full:
        keys = rng.sample(sorted(m), rng.randint(1, len(m)))
        m = {k: m[k] for k in sorted(keys)}
    if rng.random() < 0.15:
        # the older public names of four settings are still part of the API
        for new, old in (("eco", "eco_mode"), ("turbo", "turbo_mode"), ("sleep", "sleep_mode"),
                         ("freeze_protection", "freeze_protection_mode")):
            if new in m and rng.random() < 0.7:
                m[old] = m.pop(new)
    return m


def gen_net(rng, version, inner=False):
    """Directive for one exchange.  The library takes the first packet that arrives as the answer
    (it does not correlate responses with requests), so in the verdict-bearing space an exchange's
    own response is always the first packet to arrive while it waits:
      * frames *before* the response only when they share its TCP segment (V3, no cuts);
      * frames *after* the response / duplicates only when the exchange is followed by idle time
        (inner=False), so they are consumed by the next exchange's pre-drain.
    The complementary shapes are exercised by the known-finding sub-workloads."""
    d = {}
    if rng.random() < 0.5:
        d["lat"] = rng.choice(LATS)
    coalesced_pre = False
    if version == 3 and rng.random() < 0.3:
        d["pre"] = [rng.choice(["unsol_state", "unsol_b5", "unknown_id", "unsol_state_report"])
                    for _ in range(rng.randint(1, 2))]
        if rng.random() < 0.1:
            # a burst: dozens of packets in the response's segment
            d["pre"] = [rng.choice(["unsol_state", "unsol_b5", "unsol_state_report"])] * rng.choice([15, 16, 17, 24, 40, 70])
        coalesced_pre = True
    if not inner:
        if rng.random() < 0.3:
            d["post"] = [rng.choice(["unsol_state", "unsol_b5", "unknown_id", "unsol_state_report"])
                         for _ in range(rng.randint(1, 2))]
        if rng.random() < 0.2:
            d["dup"] = rng.randint(1, 2)
        if rng.random() < 0.15:
            d["dup_late"] = rng.choice([0.01, 0.3])
    if not inner and not d.get("post") and not d.get("dup") and not d.get("dup_late") and rng.random() < 0.06:
        # the unit closes the connection right behind its answer - in the same instant, or a moment later
        d["close"] = "after"
        d["same_tick"] = rng.random() < 0.6
    if version == 3 and not coalesced_pre:
        c = choose_cuts(rng, 0)
        if c is not None:
            d["cuts"] = c
            # keep the whole exchange's spread well below the 0.5 s idle gap and the 2 s timeout
            if c != "all" and rng.random() < 0.5:
                d["gap"] = rng.choice([1 / (1 << 20), 1 / 1024, 0.01]) if len(c) <= 3 else rng.choice([1 / (1 << 20), 1 / 1024])
            elif c == "all":
                d["gap"] = 1 / (1 << 20)
    return d


def gen_plan(j, rng):
    version = rng.choice([2, 3])
    cfg = {
        "version": version, "device_id": rand_id(rng), "token": rand_bytes(rng, 64).hex(),
        "key": rand_bytes(rng, 32).hex(), "cred_form": rng.choice(["hex", "bytes"]),
        "clients": rng.choice([1, 1, 2]), "state": to_dev_state(rand_state(rng)),
        "msg_id_start": rng.choice([0, 0, 250, 254, 255, rng.randint(0, 255)]),
        "epoch": [rng.randint(2000, 2099), rng.randint(1, 12), rng.randint(1, 28), rng.randint(0, 23),
                  rng.randint(0, 59), rng.randint(0, 59), rng.randint(0, 999999)],
    }
    cfg["state"]["display_on"] = rng.random() < 0.5
    cfg["state"]["filter_alert"] = rng.random() < 0.3
    cfg["state"]["indoor_raw"] = rng.choice([rng.randint(0, 254), 0xFF, 50, 49, 51])
    cfg["state"]["outdoor_raw"] = rng.choice([rng.randint(0, 254), 0xFF, 0, 1])
    cfg["state"]["indoor_tenths"] = rng.randint(0, 9)
    cfg["state"]["outdoor_tenths"] = rng.randint(0, 9)
    ops = []
    nops = rng.randint(1, 6)
    for _ in range(nops):
        c = rng.randrange(cfg["clients"])
        r = rng.random()
        if r < 0.4:
            op = {"op": "apply", "c": c, "set": client_sets(rng, full=rng.random() < 0.3)}
            op["net"] = [gen_net(rng, version)]
            if rng.random() < 0.25:
                # a property-protocol setting changed together with state: apply() makes two exchanges
                op["props"] = {rng.choice(["horizontal_swing_angle", "vertical_swing_angle"]): rng.choice([0, 1, 25, 50, 75, 100])}
                op["net"] = [gen_net(rng, version, inner=True), gen_net(rng, version)]
        elif r < 0.75:
            op = {"op": "refresh", "c": c, "net": [gen_net(rng, version)]}
        elif r < 0.85:
            op = {"op": "toggle", "c": c, "net": [gen_net(rng, version, inner=True), gen_net(rng, version)]}
        elif r < 0.93:
            op = {"op": "dev_change", "set": to_dev_state(rand_state(rng))}
        elif r < 0.96 and version == 3:
            # a half-sent unsolicited report, optionally across an authentication expiry, then the next exchange
            ops.append({"op": "dev_partial", "k": rng.choice([1, 2, 5, 6, 7, 8, 50, 100, 149])})
            if rng.random() < 0.5:
                ops.append({"op": "jump", "s": 12 * 3600 + rng.choice([61, 600])})
            op = {"op": "refresh", "c": 0}
        else:
            if cfg["clients"] == 2:
                op = {"op": "refresh2", "net": [gen_net(rng, version), gen_net(rng, version)]}
                for d in op["net"]:
                    d.pop("lat", None)
            else:
                op = {"op": "refresh", "c": c}
        if rng.random() < 0.08:
            # a long quiet period (up to beyond the 12 h authentication lifetime) before the next operation
            op["idle_after"] = rng.choice([30.0, 3700.0, 13 * 3600.0])
        ops.append(op)
    cfg["backpressure"] = rng.random() < 0.2
    if rng.random() < 0.3:
        # the clients learn a capability profile first; refresh then makes 1 + extra exchanges
        custom = rng.random() < 0.5
        recs = [[0x0210, "01" if custom else rng.choice(["05", "07", "06"])], [0x0214, "01"], [0x0215, "01"]]
        extra = 0
        if rng.random() < 0.5:
            recs.append([0x0216, "02"])
            extra += 1
        if rng.random() < 0.5:
            recs.append([0x021F, "02"])
            extra += 1
        if rng.random() < 0.4:
            recs += [[0x0009, "01"], [0x000A, "01"]]
            extra += 1
        cfg["caps_pages"] = [[recs, None]]
        cfg["learn_caps"] = True
        NAMED = [20, 40, 60, 80, 100, 102] if recs[0][1] != "05" else [40, 60, 80, 102]
        if recs[0][1] == "07":
            NAMED = [40, 60, 80]
        if recs[0][1] == "06":
            NAMED = [20, 40, 60, 80, 102]

        def fix_fan(st):
            if not custom and "fan" in st:
                st["fan"] = rng.choice(NAMED)
            return st
        fix_fan(cfg["state"])
        for op in ops:
            if op["op"] == "dev_change":
                fix_fan(op["set"])
            if op["op"] == "apply" and not custom and "fan_speed" in op.get("set", {}):
                op["set"]["fan_speed"] = rng.choice(NAMED)
            if op["op"] in ("refresh", "toggle", "refresh2") and extra:
                # all but the last exchange of a refresh are followed at once by the next one
                last = op.get("net", [{}])[-1] if op.get("net") else {}
                n = (2 if op["op"] == "toggle" else 1) + extra
                if op["op"] == "refresh2":
                    op["net"] = [gen_net(rng, cfg["version"], inner=True) for _ in range(2 * (1 + extra))]
                    for d in op["net"]:
                        d.pop("lat", None)
                else:
                    op["net"] = [gen_net(rng, cfg["version"], inner=True) for _ in range(n - 1)] + [last]
    if rng.random() < 0.15:
        # the host's wall clock is stepped between two operations (NTP correction, manual change, RTC-less boot)
        ops.insert(rng.randrange(0, len(ops) + 1), {"op": "jump", "s": rng.choice([-1.0, -3600.0, -86400.0 * 400, 86400.0, 45000.0])})
    if rng.random() < 0.08:
        cfg["host"] = rng.choice(["fd00::5", "::1", "fe80::1234:5678%eth0", "2001:db8::ac"])     # the unit is reached over IPv6
    if rng.random() < 0.2:
        # an unrelated device (other address, id, key, protocol version) and its client live in the same process
        cfg["bystander"] = {"version": rng.choice([2, 3]), "period": rng.choice([0.11, 0.3, 0.7, 1.3]),
                            "state": to_dev_state(rand_state(rng))}
    return {"config": cfg, "ops": ops}


def _plain(p):
    """The known-finding sub-workloads run exactly the recorded shape: no learned profile, no back pressure."""
    for k in ("learn_caps", "caps_pages", "backpressure", "bystander"):
        p["config"].pop(k, None)
    return p


def gen_known_v2_stream(j, rng):
    p = _plain(gen_plan(j, rng))
    p["config"]["version"] = 2
    p["config"]["clients"] = 1
    shape = rng.choice(["split", "coalesce"])
    if shape == "split":
        net = [{"v2_stream": True, "cuts": [rng.randrange(1, 100)]}]
    else:
        net = [{"v2_stream": True, "pre": ["unknown_id"]}]
    p["ops"] = [{"op": "refresh", "c": 0, "net": net}]
    p["known_shape"] = "v2_" + shape
    return p


def gen_known_first_packet(j, rng):
    p = _plain(gen_plan(j, rng))
    p["config"]["clients"] = 1
    v = p["config"]["version"]
    net = [{"pre": [rng.choice(["unsol_b5", "unknown_id"])], "pre_sep": True}]
    p["ops"] = [{"op": "dev_change", "set": to_dev_state(rand_state(rng))}, {"op": "refresh", "c": 0, "net": net}]
    p["known_shape"] = "first_packet_wins"
    return p


# ---------------------------------------------------------------------------------------------
def requested_device_state(ac):
    """Expected device state fields after applying the client's current local attributes."""
    exp = {}
    for attr, field in SET_MAP.items():
        v = getattr(ac, attr)
        if v is None:
            continue
        if attr == "target_temperature":
            v = float(v)
        elif isinstance(v, bool):
            pass
        else:
            v = int(v)
        exp[field] = v
    aux = int(ac.aux_mode)
    exp["aux_heat"] = aux == 1
    exp["indep_aux"] = aux == 2
    return exp


def run(plan):
    s = Session(plan)
    w = s.world
    dev = s.dev
    res = Result()
    did = {"apply": 0, "refresh": 0, "net": 0}
    known_shape = plan.get("known_shape")

    def fail(sig, detail):
        if known_shape:
            # the known-finding sub-workloads report one stable signature per shape and symptom class
            sym = "raised" if " raised " in sig else ("offline" if "online=" in sig else
                                                        ("stale-view" if "differs" in sig else sig))
            sig = f"KF[{known_shape}] {sym}"
        res.fail(sig, detail)

    async def check_refresh(ac, o, label):
        if o.kind != "ok":
            fail(f"{label} raised {o.exc_type}", repr(o.exc))
            return False
        if not ac.online or not ac.supported:
            fail(f"{label}: online={ac.online} supported={ac.supported} though the device answered", "")
            return False
        bad = compare_view(ac, dev.state, dev.state_len)
        if bad:
            fail(f"{label}: client view differs from device state in {bad[0][0]}", repr(bad))
            return False
        return True

    async def main(w):
        clients = s.make_clients()
        prof = plan["config"].get("learn_caps")
        if plan["config"].get("backpressure"):
            w.net.backpressure = 1 / 4096          # writes are buffered by reference and flushed a moment later
            w.fire("backpressure")
        if s.version == 3:
            for i, c in enumerate(clients):
                o = await s.do({"op": "auth", "c": i})
                if o.kind != "ok":
                    fail(f"authenticate raised {o.exc_type}", repr(o.exc))
                    return
        if prof is not None:
            # every instance first learns the device's capabilities (which changes how refresh and the state
            # decoder behave: extra queries, named-only fan speeds ...)
            for i in range(len(clients)):
                o = await s.do({"op": "caps", "c": i})
                if o.kind != "ok":
                    fail(f"get_capabilities raised {o.exc_type}", repr(o.exc))
                    return
            w.fire("capabilities_learned")
        for op in plan["ops"]:
            if not res.ok:
                return
            kind = op["op"]
            if op.get("net") and any(op["net"]):
                did["net"] += 1
            if kind == "refresh2" and len(clients) < 2:
                op = {"op": "refresh", "c": 0, "net": op.get("net", [])[:1]}
                kind = "refresh"
            if kind == "refresh2":
                dev.script = [dict(d) for d in op.get("net", [])]
                a, b = await asyncio.gather(
                    _cap(w, clients[0].refresh()), _cap(w, clients[1].refresh()))
                dev.script = []
                did["refresh"] += 2
                w.fire("concurrent_refresh_two_instances")
                for ac, o in ((clients[0], a), (clients[1], b)):
                    if not await check_refresh(ac, o, "concurrent refresh"):
                        return
                await asyncio.sleep(0.5)
                continue
            ac = clients[op.get("c", 0) % len(clients)]
            if kind == "apply":
                for attr, val in op.get("set", {}).items():
                    s.set_attr(ac, attr, val)
                for attr, val in op.get("props", {}).items():
                    s.set_attr(ac, attr, val)
                want = requested_device_state(ac)
                o = await s.do({k: v for k, v in op.items() if k not in ("set", "props")})
                did["apply"] += 1
                if o.kind != "ok":
                    fail(f"apply raised {o.exc_type}", repr(o.exc))
                    return
                diff = [(k, dev.state[k], v) for k, v in want.items() if dev.state[k] != v]
                if diff:
                    fail(f"apply: device state differs from requested in {diff[0][0]}", repr(diff))
                    return
                bad = compare_view(ac, dev.state, dev.state_len)
                if bad:
                    fail(f"apply: client view differs from echoed device state in {bad[0][0]}", repr(bad))
                    return
                # (property-protocol settings are C16's subject; here they only make apply() a two-exchange
                #  operation - a duplicated property acknowledgement may legitimately overwrite a pending one)
            elif kind == "refresh":
                o = await s.do(op)
                did["refresh"] += 1
                if not await check_refresh(ac, o, "refresh"):
                    return
            elif kind == "toggle":
                before = dev.state["display_on"]
                n0 = getattr(dev, "toggles", 0)
                o = await s.do(op)
                did["refresh"] += 1
                if o.kind != "ok":
                    fail(f"toggle_display raised {o.exc_type}", repr(o.exc))
                    return
                if getattr(dev, "toggles", 0) != n0 + 1 or dev.state["display_on"] == before:
                    fail("toggle_display: device display not toggled exactly once",
                         f"toggles {n0}->{getattr(dev, 'toggles', 0)}")
                    return
                if not await check_refresh(ac, o, "toggle_display"):
                    return
            else:
                await s.do(op)
            # idle so that late duplicates are queued before the next exchange starts
            await asyncio.sleep(op.get("idle_after", 0.5))
        bad2 = await s.stop_bystander()
        if bad2 and res.ok:
            fail("an unrelated second device/client pair in the same process was affected", bad2)

    try:
        w.run(main)
    except (SimDeadlock, SimStepLimit) as e:
        fail(f"liveness: {type(e).__name__}", str(e))
    if res.ok and dev.violations:
        w.probe("strict_parser_rejected_client_traffic", len(dev.violations))
        fail("device-side strict parser rejected client traffic: " + dev.violations[0][0], repr(dev.violations[0][:2]))
    if res.ok:
        want_id = plan["config"].get("device_id", 0) & (2 ** 64 - 1)
        for e in dev.log:
            if e["kind"] == "v2_req" and e["device_id"] != want_id:
                fail("packet carries wrong device id", f"{e['device_id']:#x} != {want_id:#x}")
                break
    if res.ok and w.net.protocol_exceptions:
        fail("exception escaped data_received: " + w.net.protocol_exceptions[0][1], repr(w.net.protocol_exceptions[0]))
    res.take(w)
    res.add_fired(dev.fired)
    res.key = res.digest
    res.nontrivial = (did["apply"] + did["refresh"] > 0) and (
        did["net"] > 0 or plan["config"].get("clients", 1) > 1 or bool(dev.fired) or "device_side_change" in w.fired)
    if plan["config"].get("msg_id_start", 0) >= 250:
        res.probes["message_id_wrap_region"] = 1
    return res


async def _cap(w, coro):
    from simkit.world import capture
    return await capture(w, coro)


def space(tier):
    sp = Space(ID)
    sp.add("random", 30000 if tier == "quick" else 1_200_000, gen_plan)
    sp.add("known_v2_stream", 60 if tier == "quick" else 2000, gen_known_v2_stream)
    sp.add("known_first_packet", 60 if tier == "quick" else 2000, gen_known_first_packet)
    return sp


def simplify(plan):
    import json
    for oi, op in enumerate(plan["ops"]):
        if op.get("set") and len(op["set"]) > 1:
            for k in list(op["set"]):
                c = json.loads(json.dumps(plan))
                c["ops"][oi]["set"].pop(k)
                yield c
    if plan["config"].get("clients", 1) > 1:
        c = json.loads(json.dumps(plan))
        c["config"]["clients"] = 1
        yield c
    c = json.loads(json.dumps(plan))
    if c["config"].get("msg_id_start"):
        c["config"]["msg_id_start"] = 0
        yield c
