"""C02 - V2 packet codec interoperates: every frame and device id round-trips."""
import asyncio

from .common import (REAL_BASE, STUB_BASE, Result, Space, rand_id, rand_bytes, ID_POOL, codec, SimDeadlock,
                     SimStepLimit)
from .session import Session

ID = "C02"
LEVEL = "exploration"
RULE = ("A case is (device id, wall-clock epoch + jumps, sequence of 1-4 LAN.send exchanges on a V2 connection, each "
        "with a request frame and an independent response frame of arbitrary bytes, optional unsolicited packets after "
        "the response). Part 'length_sweep' enumerates every request length 0..255 (response length 255-L) for each of "
        "16 boundary ids x 6 boundary epochs; part 'random' draws ids, clocks, contents (incl. tails that look like "
        "PKCS7 padding; some frames are handed over in a bytearray and the same buffer object is sent in two "
        "exchanges). Distinct = distinct (id, epoch, frames); non-trivial = every case (each exercises both codec "
        "directions against the independent implementation)."
        " Later additions: frames handed over as bytearray with the same buffer sent in two exchanges.")
ASSUMPTIONS = [
    "reference V2 codec (refmodel/codec.py) is calibrated against the captured real-device packet",
    "AES-128-ECB and MD5 primitives are trusted (pycryptodome/hashlib) on both sides",
    "the timestamp field is defined as [centisecond, second, minute, hour, day, month, year%100, year//100] of UTC now",
]
COMPONENTS = {"real": REAL_BASE + ["LAN.send -> _Packet.encode/_Packet.decode -> _LanProtocol over simulated TCP"],
              "stub": STUB_BASE + ["peer is the reference V2 codec (independent implementation)"]}

EPOCHS = [
    [2024, 5, 17, 10, 20, 30, 123456], [2000, 1, 1, 0, 0, 0, 0], [2099, 12, 31, 23, 59, 59, 999999],
    [2024, 2, 29, 23, 59, 59, 990000], [9999, 12, 31, 23, 50, 0, 5], [2038, 1, 19, 3, 14, 7, 9999],
]
SWEEP_IDS = [0, 1, 255, 256, 65535, 2 ** 32 - 1, 2 ** 32, 2 ** 48 - 1, 2 ** 48, 2 ** 56, 2 ** 63, 2 ** 64 - 1,
             0x0102030405060708, 0x8000000000000001, 15393162840672, 0xFF00FF00FF00FF00]


def special_frame(rng, n):
    r = rng.random()
    b = bytearray(rand_bytes(rng, n))
    if n and r < 0.2:
        k = rng.randint(1, min(16, n))
        b[-k:] = bytes([k]) * k            # tail that looks like valid PKCS7 padding
    elif n and r < 0.3:
        b[-min(n, 16):] = bytes([0x10]) * min(n, 16)
    elif r < 0.35:
        b = bytearray(n)
    elif n >= 2 and r < 0.4:
        b[0:2] = b"\x5a\x5a"
    elif n >= 3 and r < 0.47:
        # looks like an appliance frame that announces fewer bytes than it has, the rest zero (or not)
        b[0] = 0xAA
        b[1] = rng.randrange(0, n - 1)
        if rng.random() < 0.7:
            b[b[1] + 1:] = bytes(n - b[1] - 1)
    return bytes(b)


def run(plan):
    s = Session(plan, max_iterations=6000)
    w = s.world
    dev = s.dev
    res = Result()
    cfg = plan["config"]
    want_id = cfg["device_id"] & (2 ** 64 - 1)
    state = {"reply": b"", "post": []}

    def handler(conn, frame, key, d):
        return [state["reply"]] + list(state["post"])
    dev.raw_frame_handler = handler
    if cfg.get("unit_id") is not None:
        dev.resp_device_id = cfg["unit_id"]          # the unit stamps its answers with its real id
    if cfg.get("unit_ts"):
        dev.resp_ts = bytes.fromhex(cfg["unit_ts"])

    async def main(w):
        lan = w.ns.LAN(s_host(), 6444, cfg["device_id"])
        pending = []
        buf = [None]
        for op in plan["ops"]:
            if op["op"] == "jump":
                w.clock.jump(op["s"])
                w.fire("clock_jump")
                continue
            frame = bytes.fromhex(op["frame"])
            arg = frame
            if op.get("reuse_buffer") and buf[0] is not None:
                arg = buf[0]                    # the caller polls with the very same buffer object again
                w.fire("same_buffer_sent_again")
            elif op.get("as_bytearray"):
                arg = buf[0] = bytearray(frame)  # bytes-like caller buffer holding the frame
                w.fire("frame_passed_as_bytearray")
            state["reply"] = bytes.fromhex(op["reply"])
            state["post"] = [bytes.fromhex(x) for x in op.get("post", [])]
            ndrop = op.get("drops", 0)
            dev.script = [{"drop": True}] * ndrop + ([{"lat": op["lat"]}] if op.get("lat") else [])
            n0 = len(dev.log)
            now = w.clock.now()
            try:
                got = await lan.send(arg, retries=1 + ndrop)
            except Exception as e:
                res.fail(f"LAN.send raised {type(e).__name__}", f"{e!r} frame_len={len(frame)} reply_len={len(state['reply'])}")
                return
            # --- client -> device direction: what the independent decoder saw
            reqs = [e for e in dev.log[n0:] if e["kind"] in ("v2_req", "bad_v2")]
            if len(reqs) != 1 + ndrop or any(e["kind"] != "v2_req" for e in reqs):
                res.fail("request packet rejected by the independent decoder",
                         repr([(e["kind"], e.get("err")) for e in reqs]))
                return
            if ndrop:
                w.fire("retransmission", ndrop)
                import datetime as _dt
                t_first = w.clock.epoch + _dt.timedelta(seconds=reqs[0]["t"] + w.clock.offset)
                first_ts = codec.v2_timestamp_bytes((t_first.year, t_first.month, t_first.day, t_first.hour,
                                                     t_first.minute, t_first.second, t_first.microsecond))
                for e in reqs[1:]:
                    # a retransmission is a packet too: same frame and id, a timestamp of the first or of this write
                    t_now = w.clock.epoch + _dt.timedelta(seconds=e["t"] + w.clock.offset)
                    now_ts = codec.v2_timestamp_bytes((t_now.year, t_now.month, t_now.day, t_now.hour, t_now.minute,
                                                       t_now.second, t_now.microsecond))
                    if e["frame"] != frame or e["device_id"] != want_id or e["ts"] not in (first_ts, now_ts):
                        res.fail("retransmitted packet differs from what the independent decoder expects",
                                 f"frame ok {e['frame'] == frame}, id ok {e['device_id'] == want_id}, ts {e['ts'].hex()}")
                        return
            e = reqs[0]
            if e["frame"] != frame:
                res.fail("request frame not recovered identically", f"sent {frame.hex()} decoded {e['frame'].hex()}")
                return
            if e["device_id"] != want_id:
                res.fail("device id not recovered identically", f"{e['device_id']:#x} != {want_id:#x}")
                return
            if e["magic"] != b"\x20\x00" or e["msg_id"] != bytes(4) or e["tail12"] != bytes(12):
                res.fail("header fields differ from the format", f"magic {e['magic'].hex()} msgid {e['msg_id'].hex()} tail {e['tail12'].hex()}")
                return
            if e["enc_len"] != 16 * (len(frame) // 16 + 1):
                res.fail("payload length is not PKCS7-padded length", f"{e['enc_len']} for frame {len(frame)}")
                return
            import datetime as _dt
            now = w.clock.epoch + _dt.timedelta(seconds=e["t"] + w.clock.offset)   # wall clock at the write
            exp_ts = codec.v2_timestamp_bytes((now.year, now.month, now.day, now.hour, now.minute, now.second, now.microsecond))
            if e["ts"] != exp_ts:
                res.fail("timestamp bytes differ from the wall clock", f"{e['ts'].hex()} != {exp_ts.hex()} at {now.isoformat()}")
                return
            # --- device -> client direction
            exp = pending + [state["reply"]]
            if got != exp:
                res.fail("response frames not decoded identically",
                         f"got {[g.hex() for g in got]} expected {[g.hex() for g in exp]}")
                return
            pending = list(state["post"])
            if pending:
                w.fire("unsolicited_packet_after_response", len(pending))
            await asyncio.sleep(0.25)

    def s_host():
        from .common import HOST
        return HOST

    try:
        w.run(main)
    except (SimDeadlock, SimStepLimit) as e:
        res.fail(f"liveness: {type(e).__name__}", str(e))
    res.take(w)
    res.add_fired(dev.fired)
    res.key = (cfg["device_id"], cfg.get("unit_id"), cfg.get("unit_ts"), tuple(cfg.get("epoch", ())), tuple((o.get("frame"), o.get("reply")) for o in plan["ops"]))
    res.nontrivial = True
    for o in plan["ops"]:
        if o["op"] == "send":
            res.probes[f"pad_{16 - (len(o['frame']) // 2) % 16}"] = res.probes.get(f"pad_{16 - (len(o['frame']) // 2) % 16}", 0) + 1
    return res


def space(tier):
    sp = Space(ID)

    def sweep(j, rng):
        L = j % 256
        ididx = (j // 256) % len(SWEEP_IDS)
        ep = EPOCHS[(j // (256 * len(SWEEP_IDS))) % len(EPOCHS)]
        return {"config": {"version": 2, "device_id": SWEEP_IDS[ididx], "epoch": ep},
                "ops": [{"op": "send", "frame": special_frame(rng, L).hex(), "reply": special_frame(rng, 255 - L).hex()}]}
    reps = 2 if tier == "quick" else len(EPOCHS)
    sp.add("length_sweep", 256 * len(SWEEP_IDS) * reps, sweep, exhaustive=True)

    def rnd(j, rng):
        ep = rng.choice(EPOCHS + [[rng.randint(1, 9998), rng.randint(1, 12), rng.randint(1, 28), rng.randint(0, 23),
                                   rng.randint(0, 59), rng.randint(0, 59), rng.randint(0, 999999)]])
        ops = []
        for _ in range(rng.randint(1, 4)):
            if rng.random() < 0.2 and ep[0] < 9000:
                ops.append({"op": "jump", "s": rng.choice([0.01, 59.99, 3600, 86399.5, 86400 * 365.25, 43200])})
            op = {"op": "send", "frame": special_frame(rng, rng.randint(0, 255)).hex(),
                  "reply": special_frame(rng, rng.randint(0, 255)).hex()}
            if rng.random() < 0.3:
                op["post"] = [special_frame(rng, rng.randint(0, 64)).hex() for _ in range(rng.randint(1, 2))]
            if rng.random() < 0.3:
                op["lat"] = rng.choice([0.05, 1.0, 1.9])
            if rng.random() < 0.2 and ep[0] < 9000:
                op["drops"] = rng.randint(1, 2)
            if rng.random() < 0.15:
                # a bytes-like caller buffer, sent in two exchanges: both carry the frame the caller put into it
                op["as_bytearray"] = True
                ops.append(op)
                op = dict(op, reply=special_frame(rng, rng.randint(0, 255)).hex(), reuse_buffer=True)
                op.pop("post", None)
            ops.append(op)
        c = {"version": 2, "device_id": rand_id(rng), "epoch": ep}
        if rng.random() < 0.25:
            c["device_id"] = rng.choice([0, 0, 1, c["device_id"]])       # e.g. the CLI default: id 0
            c["unit_id"] = rng.choice([rng.getrandbits(48), 2 ** 64 - 1, 1])
        if rng.random() < 0.25:
            c["unit_ts"] = rng.choice(["eaa908020c081714", "ff" * 8, "00000000000d0000", "6363636363636363", rand_bytes(rng, 8).hex()])
        return {"config": c, "ops": ops}
    sp.add("random", 20000 if tier == "quick" else 600_000, rnd)
    return sp
