"""C03 - V2 packet integrity: altered or truncated packets rejected, never mis-decoded."""
import asyncio

from .common import REAL_BASE, STUB_BASE, Result, Space, rand_bytes, det_bytes, HOST, SimDeadlock, SimStepLimit
from .session import Session

ID = "C03"
LEVEL = "fault_enumeration"
RULE = ("A case is (authentic V2 response packet for a frame of length L in {0,1,15,16,17,34,255} or random, one "
        "in-transit corruption: single-bit flip / single-byte substitution / truncation / multi-byte corruption), "
        "followed by a clean exchange. Parts 'flip_all' and 'trunc_all' enumerate every bit position and every "
        "truncation length of the 7 fixed packets; 'byte_subst' enumerates positions x substitute values (all 255 "
        "in thorough, 16 sampled in quick); 'byte_subst_boundary_values' puts 10 boundary values at every position, "
        "also with the altered packet arriving as an extra after the response, alone or right behind an authentic second "
        "copy in the same instant (then no more frames may be returned than authentic packets were delivered); "
        "'multi' and 'random_packets' are seeded. A run that does not come back within its real-time budget is a "
        "liveness violation. Distinct = distinct (packet, "
        "corruption); non-trivial = the corruption actually changed the delivered bytes."
        " Later additions: altered reply to a retransmission; the altered packet queued ahead of / behind an authentic copy; an authentic packet abandoned unread before a reconnect; histories of 2-3 earlier altered replies (header / signature only) with well-formed carried frames; an authentic packet already queued when the request is sent; part 'flip_all_carried_in_v3' = the same V2 packets inside genuine V3 envelopes, also with the 12 h key lifetime ending while the reply is in flight.")
ASSUMPTIONS = [
    "corruption is applied to the device->client packet in transit (after signing)",
    "V2 delivery is packet-aligned (one packet per TCP segment)",
    "reference V2 codec calibrated against the captured packet",
]
COMPONENTS = {"real": REAL_BASE + ["LAN.send -> _Packet.decode, reconnect path"], "stub": STUB_BASE}

LENS = [0, 1, 15, 16, 17, 34, 255]


def plen(L):
    return 56 + 16 * (L // 16 + 1)


def frame_for(L, tag=0):
    return det_bytes(f"c03frame{L}:{tag}", L)


def run(plan):
    s = Session(plan, max_iterations=6000)
    w = s.world
    dev = s.dev
    res = Result()
    cfg = plan["config"]
    reply = bytes.fromhex(plan["reply"])
    dev.raw_frame_handler = lambda conn, frame, key, d: [reply]
    if plan.get("unit_ts"):
        dev.resp_ts = bytes.fromhex(plan["unit_ts"])      # the unit's own idea of the time (not a calendar time at all)
    delivered_changed = [False]

    async def main_v3(w):
        """The same V2 packets carried inside genuine V3 envelopes: the altered packet must still be rejected -
        also when the 12 h key lifetime runs out while the reply is on its way."""
        import refmodel.codec as codec
        lan = w.ns.LAN(HOST, 6444, cfg["device_id"])
        PE = w.ns.lan.ProtocolError
        try:
            await lan.authenticate(s.token, s.key)
        except Exception as e:
            res.fail(f"genuine handshake raised {type(e).__name__}", repr(e))
            return
        if plan.get("warm"):
            try:
                got0 = await lan.send(b"\xaa\x00", retries=1)
            except Exception as e:
                res.fail(f"clean exchange raised {type(e).__name__}", repr(e))
                return
            if got0 != [reply]:
                res.fail("clean exchange returned wrong frames", repr(got0))
                return
        lat = 1 / 1024
        if plan.get("straddle"):
            # the request leaves shortly before the key lifetime ends, the reply arrives shortly after
            t_hs = w.loop.time() - 1.0                      # authenticate() pauses one second after the handshake
            await asyncio.sleep(max(0.0, t_hs + 12 * 3600 - plan.get("before", 0.25) - w.loop.time()))
            lat = plan.get("lat", 0.5)
            w.fire("key_lifetime_ends_while_reply_in_flight")
        dev.script = [{"mutate_inner": plan["mutate"], "lat": lat}]
        try:
            got = await lan.send(b"\xaa\x01", retries=1)
            kind = "returned"
        except PE as e:
            got, kind = e, "protocol_error"
        except Exception as e:
            got, kind = e, "other"
        orig = codec.v2_encode(dev.device_id, reply, magic=dev.resp_magic, ts=getattr(dev, "resp_ts", None) or bytes(8))
        delivered_changed[0] = getattr(dev, "last_inner", orig) != orig
        if kind == "other":
            res.fail(f"corrupted packet raised {type(got).__name__} instead of ProtocolError", repr(got))
        elif kind == "returned":
            if delivered_changed[0] and got != [reply]:
                res.fail("altered packet accepted and decoded to a different frame",
                         f"V3-carried: got {[g.hex()[:40] for g in got]}")
            elif delivered_changed[0]:
                res.fail("altered packet accepted", "V3-carried packet decoded to the original frame")
            elif got != [reply]:
                res.fail("unaltered packet decoded wrongly", repr(got))
        if not res.ok:
            return
        dev.script = []
        try:
            got2 = await lan.send(b"\xaa\x02", retries=1)
        except Exception as e:
            res.fail(f"clean exchange after a rejected packet raised {type(e).__name__}", repr(e))
            return
        if got2 != [reply]:
            res.fail("clean exchange after a rejected packet returned wrong frames", repr(got2))

    async def main(w):
        if cfg.get("version") == 3:
            return await main_v3(w)
        lan = w.ns.LAN(HOST, 6444, cfg["device_id"])
        if plan.get("warm"):
            # an authentic copy of the very same packet is accepted first (history: accept, then altered copy)
            try:
                got0 = await lan.send(b"\xaa\x00", retries=1)
            except Exception as e:
                res.fail(f"clean exchange raised {type(e).__name__}", repr(e))
                return
            if got0 != [reply]:
                res.fail("clean exchange returned wrong frames", repr(got0))
                return
        if plan.get("as_extra"):
            # the altered packet is not the awaited response but an extra one, drained by the next exchange
            dev.script = [{"post_mutated": plan["mutate"]}]
            authentic = 2
            if plan.get("then_authentic") and not plan.get("pair"):
                # the altered extra is followed by one more authentic copy: both wait in the queue, altered first
                dev.script = [{"post_mutated": plan["mutate"], "then_authentic": True}]
                authentic = 3
            if plan.get("pair"):
                # response, an authentic second copy and the altered copy reach the client in the same instant:
                # one drain sees [authentic, altered]
                dev.script = [{"post_mutated": plan["mutate"], "dup": True, "gap": 0}]
                authentic = 3
            try:
                g1 = await lan.send(b"\xaa\x01", retries=1)
                await asyncio.sleep(0.25)
                dev.script = []
                g2 = await lan.send(b"\xaa\x02", retries=1)
            except Exception as e:
                if not isinstance(e, w.ns.lan.ProtocolError):
                    res.fail(f"altered extra packet raised {type(e).__name__} instead of ProtocolError", repr(e))
                    return
                g1, g2 = [reply], [reply]
            delivered_changed[0] = True
            for g in (g1, g2):
                if any(f != reply for f in g):
                    res.fail("altered packet accepted and decoded to a different frame",
                             f"an extra altered packet surfaced as {[f.hex()[:40] for f in g if f != reply]}")
                    return
            if len(g1) + len(g2) > authentic:
                res.fail("more frames returned than authentic packets were delivered",
                         f"{len(g1)} + {len(g2)} frames from {authentic} authentic packets and one altered packet")
            return
        dev.script = [{"mutate": plan["mutate"]}]
        ntx = 1
        if plan.get("after_drop"):
            # two faults in one exchange: the first transmission goes unanswered, the reply to the retransmission
            # is the altered one
            dev.script = [{"drop": True}, {"mutate": plan["mutate"]}]
            ntx = 2
            w.fire("altered_reply_to_a_retransmission")
        for pm in plan.get("before", []):
            # history on this LAN object: earlier replies were altered too (each rejected, each followed by the
            # library's own reconnect) - what was learned from them must not weaken the check of the next one
            dev.script = [{"mutate": pm}]
            try:
                g = await lan.send(b"\xaa\x05", retries=1)
            except Exception as e:
                if not isinstance(e, w.ns.lan.ProtocolError):
                    res.fail(f"corrupted packet raised {type(e).__name__} instead of ProtocolError", repr(e))
                    return
                g = None
            if g is not None and g != [reply]:
                res.fail("altered packet accepted and decoded to a different frame", f"earlier altered reply: {g!r}")
                return
            w.fire("earlier_altered_reply_on_the_same_object")
            dev.script = [{"mutate": plan["mutate"]}]
        if plan.get("queued_before"):
            # an authentic unsolicited packet is already waiting in the queue when the request is sent
            dev.script = [{"dup": 1, "gap": 0.05}] + dev.script
            try:
                await lan.send(b"\xaa\x00", retries=1)
            except Exception as e:
                res.fail(f"clean exchange raised {type(e).__name__}", repr(e))
                return
            await asyncio.sleep(0.2)
            w.fire("authentic_packet_queued_before_the_request")
        if plan.get("authentic_after"):
            # the altered packet and an intact repetition reach the client in the same instant
            dev.script[-1] = dict(dev.script[-1], authentic_after=True, gap=0)
        if plan.get("abandoned"):
            # history: an authentic packet of the same length was received but never read - the unit closed the
            # connection first - and is thrown away when the client reconnects
            dev.script = [{"dup": 6, "gap": 0.01}] + dev.script
            try:
                await lan.send(b"\xaa\x00", retries=1)
            except Exception as e:
                res.fail(f"clean exchange raised {type(e).__name__}", repr(e))
                return
            await asyncio.sleep(0.2)
            for conn in w.net.conns:
                if conn.open:
                    conn.close()
            await asyncio.sleep(0.05)
            w.fire("authentic_packet_abandoned_unread")
        PE = w.ns.lan.ProtocolError
        try:
            got = await lan.send(b"\xaa\x01", retries=ntx)
            kind = "returned"
        except PE as e:
            got, kind = e, "protocol_error"
        except Exception as e:
            got, kind = e, "other"
        # what was actually delivered?
        conn = w.net.conns[0]
        import refmodel.codec as codec
        orig = codec.v2_encode(dev.device_id, reply, magic=dev.resp_magic, ts=getattr(dev, "resp_ts", None) or bytes(8))
        conn = w.net.conns[-1]
        if plan.get("before") or plan.get("queued_before"):
            delivered = bytes(conn.tx_stream)[-len(orig):] if plan["mutate"]["kind"] != "trunc" else b""
        else:
            delivered = bytes(conn.tx_stream)[len(orig) if (plan.get("warm") and not plan.get("abandoned")) else 0:]
        if plan.get("authentic_after") and delivered.endswith(orig) and len(delivered) > len(orig):
            delivered = delivered[:-len(orig)]
        delivered_changed[0] = delivered != orig
        if kind == "other":
            res.fail(f"corrupted packet raised {type(got).__name__} instead of ProtocolError", repr(got))
            return
        if kind == "returned":
            if not delivered_changed[0]:
                if got != [reply]:
                    res.fail("unaltered packet decoded wrongly", repr(got))
                    return
            elif got != [reply]:
                res.fail("altered packet accepted and decoded to a different frame",
                         f"got {[g.hex() for g in got]} expected protocol error (original {reply.hex()[:60]})")
                return
            else:
                res.fail("altered packet accepted", f"delivered {delivered.hex()[:80]}... decoded to the original frame")
                return
        # recovery: next clean exchange succeeds without user intervention
        dev.script = []
        try:
            got2 = await lan.send(b"\xaa\x02", retries=1)
        except Exception as e:
            res.fail(f"clean exchange after a rejected packet raised {type(e).__name__}", repr(e))
            return
        if got2 != [reply]:
            res.fail("clean exchange after a rejected packet returned wrong frames", repr(got2))

    try:
        w.run(main)
    except (SimDeadlock, SimStepLimit) as e:
        res.fail(f"liveness: {type(e).__name__}", str(e))
    res.take(w)
    res.add_fired(dev.fired)
    res.key = (plan["reply"], repr(plan["mutate"]), bool(plan.get("warm")), bool(plan.get("as_extra")), bool(plan.get("pair")), bool(plan.get("after_drop")), plan["config"].get("version"), bool(plan.get("straddle")), bool(plan.get("authentic_after")), bool(plan.get("abandoned")), bool(plan.get("then_authentic")), repr(plan.get("before")), bool(plan.get("queued_before")), plan.get("unit_ts"))
    res.nontrivial = delivered_changed[0]
    return res


def space(tier):
    sp = Space(ID)
    base = {"version": 2, "device_id": 0x0000112233445566}
    # flips: all bits of the 7 packets
    flip_index = []
    for L in LENS:
        flip_index.extend((L, b) for b in range(plen(L) * 8))

    def flips(j, rng):
        L, b = flip_index[j]
        return {"config": base, "reply": frame_for(L).hex(), "mutate": {"kind": "flip", "bit": b}}
    sp.add("flip_all", len(flip_index), flips, exhaustive=True)

    def flips_warm(j, rng):
        return dict(flips(j, rng), warm=True)
    sp.add("flip_all_after_authentic_copy", len(flip_index), flips_warm, exhaustive=True)
    trunc_index = []
    for L in LENS:
        trunc_index.extend((L, n) for n in range(1, plen(L)))

    def truncs(j, rng):
        L, n = trunc_index[j]
        p = {"config": base, "reply": frame_for(L).hex(), "mutate": {"kind": "trunc", "len": n}}
        if j % 2:
            p["unit_ts"] = ["eaa908020c081714", "ff" * 8, "003c3c18200d6363"][(j // 2) % 3]
        return p
    sp.add("trunc_all", len(trunc_index), truncs, exhaustive=True)
    pos_index = []
    for L in LENS:
        pos_index.extend((L, p) for p in range(plen(L)))
    nvals = 255 if tier == "thorough" else 16

    def substs(j, rng):
        L, p = pos_index[j // nvals]
        if nvals == 255:
            delta = (j % nvals) + 1           # every substitute value: original xor 1..255
        else:
            delta = rng.randrange(1, 256)
        return {"config": base, "reply": frame_for(L).hex(), "mutate": {"kind": "multi", "edits": [[p, delta]]}}
    sp.add("byte_subst", len(pos_index) * nvals, substs, exhaustive=(nvals == 255))

    BOUNDARY = [0x00, 0x01, 0xFF, 0x5A, 0xAA, 0x83, 0x70, 0x10, 0x20, 0x80]

    def subst_boundary(j, rng):
        L, p = pos_index[j // len(BOUNDARY) % len(pos_index)]
        v = BOUNDARY[j % len(BOUNDARY)]
        k = j // (len(BOUNDARY) * len(pos_index))
        return {"config": base, "reply": frame_for(L).hex(), "mutate": {"kind": "byte", "pos": p, "val": v},
                "as_extra": k % 2 == 1, "warm": k % 4 == 2, "pair": k % 4 == 3, "then_authentic": k % 4 == 1 and p % 2 == 0, "after_drop": k % 4 == 0 and v in (0x00, 0xFF),
                "authentic_after": k % 4 == 0 and v in (0x01, 0x5A), "abandoned": k % 4 == 0 and v in (0xAA, 0x80)}
    sp.add("byte_subst_boundary_values", len(pos_index) * len(BOUNDARY) * 4, subst_boundary, exhaustive=True)

    base3 = {"version": 3, "device_id": 0x0000112233445566}
    v3_index = []
    for L in (0, 16, 34):
        v3_index.extend((L, b) for b in range(plen(L) * 8))

    def flips_v3(j, rng):
        L, b = v3_index[j % len(v3_index)]
        k = j // len(v3_index)
        p = {"config": base3, "reply": frame_for(L).hex(), "mutate": {"kind": "flip", "bit": b}, "warm": k % 2 == 1}
        if k >= 2 or (tier == "quick" and j % 3 == 0):
            p["straddle"] = True
            p["before"] = rng.choice([0.01, 0.25, 0.4])
            p["lat"] = rng.choice([0.5, 1.0, 1.9])
        return p
    sp.add("flip_all_carried_in_v3", len(v3_index) * (1 if tier == "quick" else 4), flips_v3, exhaustive=True)

    def multi(j, rng):
        L = rng.choice(LENS + [rng.randint(0, 255)])
        n = plen(L)
        edits = [[rng.randrange(n), rng.randrange(1, 256)] for _ in range(rng.randint(2, 8))]
        return {"config": dict(base, device_id=rng.getrandbits(64)), "reply": rand_bytes(rng, L).hex(),
                "mutate": {"kind": "multi", "edits": edits}}
    sp.add("multi", 2000 if tier == "quick" else 200_000, multi)

    def rnd(j, rng):
        L = rng.randint(0, 255)
        n = plen(L)
        kind = rng.choice(["flip", "trunc", "byte"])
        if kind == "flip":
            m = {"kind": "flip", "bit": rng.randrange(n * 8)}
        elif kind == "trunc":
            m = {"kind": "trunc", "len": rng.randrange(1, n)}
        else:
            m = {"kind": "multi", "edits": [[rng.randrange(n), rng.randrange(1, 256)]]}
        p = {"config": dict(base, device_id=rng.getrandbits(64)), "reply": rand_bytes(rng, L).hex(), "mutate": m,
                "warm": rng.random() < 0.5, "as_extra": rng.random() < 0.25, "pair": rng.random() < 0.4,
                "then_authentic": rng.random() < 0.5,
                "after_drop": rng.random() < 0.25, "authentic_after": rng.random() < 0.2, "abandoned": rng.random() < 0.2}
        if rng.random() < 0.3:
            p["unit_ts"] = rng.choice(["eaa908020c081714", "ff" * 8, "00000000000d0000", "003c3c18200d6363", rand_bytes(rng, 8).hex()])
        if p["as_extra"] or p["abandoned"] or p["authentic_after"] or p["after_drop"]:
            return p
        if rng.random() < 0.5:
            # the frames carried are well-formed appliance frames (start byte, length byte, checksums)
            from refmodel import codec as _c
            body = bytes([0xC0]) + rand_bytes(rng, rng.randint(18, 40))
            fr = _c.frame_build(_c.body_with_crc(body), 0x03)
            p["reply"] = fr.hex()
            n = plen(len(fr))
            if m["kind"] == "multi":
                # the judged alteration hits the encrypted frame, not its last block
                m["edits"] = [[40 + rng.randrange(0, max(1, n - 56 - 16)), rng.randrange(1, 256)]]
            hdr_or_sig = True
        else:
            hdr_or_sig = False
        if rng.random() < 0.3:
            # two or three earlier altered replies: header / signature bytes only, or anywhere
            p["before"] = [{"kind": "multi", "edits": [[rng.choice([rng.randrange(6, 40), n - 1 - rng.randrange(0, 16)] +
                                                                   ([] if hdr_or_sig else [rng.randrange(n)])),
                                                        rng.randrange(1, 256)]]} for _ in range(rng.randint(2, 3))]
        elif rng.random() < 0.3:
            p["queued_before"] = True
        return p
    sp.add("random_packets", 3000 if tier == "quick" else 400_000, rnd)
    return sp
