"""C04 - V3 stream reassembly is segmentation-independent."""
import asyncio

from .common import (REAL_BASE, STUB_BASE, HOST, PORT, Result, Space, World, codec, TICK, rand_bytes,
                     n_combos_upto, nth_combo_upto, SimDeadlock, SimStepLimit)

ID = "C04"
LEVEL = "exploration"
RULE = ("A case is (byte stream of 1..4 V3 packets with optional marker-free garbage before/between them, "
        "set of TCP cut points, inter-segment gap mode). Part 'small_exhaustive' enumerates every placement of "
        "<=3 cut points for each of a fixed list of small streams; part 'random' draws streams (payload 0..600, "
        "payloads containing the marker bytes at every alignment) and cut sets of any size incl. byte-by-byte. "
        "Part 'client_write_between_segments' works at LAN level on an authenticated V3 connection: the device has "
        "sent only the first k bytes of a report when LAN.send writes (and re-writes) its request; the rest arrives "
        "with the response; every report must be returned exactly once, before the response. "
        "Distinct = distinct (stream, cuts, gap); non-trivial = at least one cut point or garbage byte or >=2 packets."
        " Later additions: blocking reads cancelled before the stream, 300-6000 packets in one segment, every packet size 0-1100 (3000 in thorough).")
ASSUMPTIONS = [
    "SimTransport reproduces the asyncio.Transport contract msmart relies on (DESIGN 1.3)",
    "packets are HANDSHAKE_RESPONSE-typed so read() returns the payload without a key; the reassembly code path "
    "(data_received) is type-agnostic",
    "white-box touch point: _LanProtocolV3 is driven directly (created through the simulated create_connection)",
]
COMPONENTS = {"real": REAL_BASE + ["msmart.lan._LanProtocolV3.data_received/read via loop.create_connection"],
              "stub": STUB_BASE}


# ---------------------------------------------------------------------------------------------
def build_stream(ops):
    s = b""
    payloads = []
    k = 0
    for op in ops:
        if op["op"] == "garbage":
            s += bytes.fromhex(op["hex"])
        else:
            p = bytes.fromhex(op["payload"])
            s += codec.v3_encode_plain(k & 0xFFFF, p, codec.T_HANDSHAKE_RESPONSE)
            payloads.append(p)
            k += 1
    return s, payloads


class _StreamServer:
    def __init__(self):
        self.conn = None

    def connect_policy(self, net, host, port):
        return "accept", TICK

    def on_connect(self, conn):
        self.conn = conn

    def on_data(self, conn, data):
        pass

    def on_client_close(self, conn):
        pass


def run_lan(plan):
    """LAN level: the client writes (and re-writes) its request while an inbound packet is only partly there."""
    from .session import Session
    s = Session(plan, max_iterations=20_000)
    w = s.world
    dev = s.dev
    res = Result()
    reply = bytes.fromhex(plan["reply"])
    dev.raw_frame_handler = lambda conn, frame, key, d: [reply]

    got_all_pending = [False]

    async def main(w):
        s.make_clients()
        o = await s.do({"op": "lan_auth"})
        if o.kind != "ok":
            res.fail(f"genuine handshake failed: {o.exc_type}", repr(o.exc))
            return
        unsols, got_all = [], []
        for k, drops in list(plan["rounds"]) + [[0, 0]]:
            unsol = None
            if k:
                await s.do({"op": "dev_partial", "k": k})
                unsol = dev.last_unsolicited_frame if dev.pending_tail else None
            if unsol is not None:
                unsols.append(unsol)
                w.fire("client_write_between_segments_of_inbound_packet")
            # the rest of the report travels in the next segment the device sends (with the response, or alone
            # when the device stays silent on the first transmission)
            net = [{"drop": True}] * drops + [{}]
            o = await s.do({"op": "send", "frame": "aa0155", "retries": 1 + drops, "net": net})
            if o.kind != "ok":
                res.fail(f"LAN.send raised {o.exc_type}", repr(o.exc))
                return
            got = list(o.value)
            if not drops and got != ([unsol] if unsol is not None else []) + [reply] and not got_all_pending[0]:
                res.fail("packet split around a client write was not delivered exactly once, in order",
                         f"k={k}: got {[g.hex()[:24] for g in got]} expected report then response")
                return
            got_all.extend(got)
            got_all_pending[0] = bool(drops)      # a late response to a retransmission may show up in the next send
            await asyncio.sleep(0.5)
        reports = [g for g in got_all if g != reply]
        if reports != unsols:
            res.fail("packet split around a client write was not delivered exactly once, in order",
                     f"reports delivered {len(reports)} of {len(unsols)} sent: {[g.hex()[:24] for g in reports]}")

    try:
        w.run(main)
    except (SimDeadlock, SimStepLimit) as e:
        res.fail(f"liveness: {type(e).__name__}", str(e))
    res.take(w)
    res.add_fired(dev.fired)
    res.key = ("lan", plan["reply"], repr(plan["rounds"]), plan["config"].get("key"))
    res.nontrivial = True
    return res


def run(plan):
    if plan.get("mode") == "lan":
        return run_lan(plan)
    w = World(seed=plan.get("seed", 0), max_iterations=60_000)
    res = Result()
    stream, payloads = build_stream(plan["ops"])
    n = len(stream)
    cuts = sorted({c % n for c in plan.get("cuts", []) if n > 1 and c % n}) if n else []
    gap0 = plan.get("gap0", False)
    bounds = cuts + [n]
    expected_all = codec.v3_reassemble(stream)
    srv = _StreamServer()
    w.net.listen(HOST, PORT, srv)

    async def main(w):
        loop = w.loop
        proto_cls = w.ns.lan._LanProtocolV3
        _t, proto = await loop.create_connection(lambda: proto_cls(), HOST, PORT)
        conn = srv.conn
        got = []

        async def drain():
            out = []
            while True:
                try:
                    out.append(await proto.read(timeout=0))
                except asyncio.QueueEmpty:
                    return out

        prev = 0
        group = 0
        flush_pos = None
        for dt in plan.get("cancelled_reads", []):
            # a caller waits for a packet and is cancelled from outside (its own timeout / wait_for around the call)
            # before anything has arrived: the wait must leave nothing behind that takes a later packet
            t = loop.create_task(proto.read(timeout=2))
            await asyncio.sleep(dt)
            t.cancel()
            try:
                await t
            except BaseException:       # noqa: BLE001 - CancelledError or whatever the library turns it into
                pass
            w.fire("blocking_read_cancelled_before_stream")
        if plan.get("idle_before"):
            await asyncio.sleep(plan["idle_before"])          # a connection that has been quiet for a while
            w.fire("idle_before_stream")
        long_gaps = set(plan.get("long_gaps", []))
        for bi, b in enumerate(bounds):
            seg = stream[prev:b]
            prev = b
            if bi in long_gaps:
                await asyncio.sleep(plan.get("long_gap_s", 11.0))   # a long pause between two segments
                w.fire("long_gap_between_segments")
            conn.send(seg, lat=TICK, gap=TICK)
            group += 1
            # gap0: deliver pairs of segments in consecutive ticks without draining in between
            if gap0 and group < 2 and bi != len(bounds) - 1:
                continue
            group = 0
            await asyncio.sleep(8 * TICK)
            if w.net.protocol_exceptions:
                res.fail("data_received raised " + w.net.protocol_exceptions[0][1], repr(w.net.protocol_exceptions[0]))
                return
            try:
                new = await drain()
            except Exception as e:
                res.fail(f"read raised {type(e).__name__}", repr(e))
                return
            got.extend(new)
            if flush_pos is None:
                exp = codec.v3_reassemble(stream[:b])
            else:
                # everything buffered at the flush was discarded; later bytes are reassembled from there
                exp = codec.v3_reassemble(stream[:flush_pos]) + codec.v3_reassemble(stream[flush_pos:b])
            exp_payloads = [p[8:] for _end, p in exp]
            if plan.get("flush_at") == bi and flush_pos is None and hasattr(proto, "_flush"):
                proto._flush()              # what authenticate() does before every handshake
                flush_pos = b
                w.fire("flush_with_partial_packet_pending")
            if got != exp_payloads:
                if len(got) < len(exp_payloads) and got == exp_payloads[:len(got)]:
                    res.fail("packet not delivered when its last byte arrived",
                             f"after {b} bytes expected {len(exp_payloads)} packets, got {len(got)}")
                elif len(got) > len(exp_payloads) and got[:len(exp_payloads)] == exp_payloads:
                    res.fail("packet delivered early or duplicated",
                             f"after {b} bytes expected {len(exp_payloads)} packets, got {len(got)}")
                else:
                    res.fail("wrong packet content/order", f"after {b} bytes got {[g.hex()[:40] for g in got]} "
                                                          f"expected {[g.hex()[:40] for g in exp_payloads]}")
                return
            if len(new) >= 2:
                w.probe("several_packets_in_one_segment")
        if flush_pos is None and [p[8:] for _e, p in expected_all] != payloads:
            raise RuntimeError("generator produced a stream the reference reassembler reads differently")
        if len(cuts) >= 2:
            w.probe("reassembly_spanned_3+_segments")

    try:
        w.run(main)
    except Exception as e:
        if not res.ok:
            pass
        else:
            raise
    res.take(w)
    has_garbage = any(op["op"] == "garbage" and op["hex"] for op in plan["ops"])
    if cuts:
        res.fired["seg_split"] = len(cuts)
    if len(cuts) >= max(n - 1, 1) and n > 2:
        res.fired["byte_by_byte"] = 1
    if has_garbage:
        res.fired["garbage_prefix"] = 1
    if len(payloads) >= 2 and len(cuts) < len(payloads) - 1:
        res.fired["seg_coalesce"] = 1
    res.key = (stream, tuple(cuts), gap0, plan.get("idle_before"), tuple(plan.get("long_gaps", [])), plan.get("flush_at"),
               tuple(plan.get("cancelled_reads", [])))
    res.nontrivial = bool(cuts) or has_garbage or len(payloads) >= 2
    return res


# ---------------------------------------------------------------------------------------------
MK = b"\x83\x70"


def _payload(rng, size, style):
    p = bytearray(rand_bytes(rng, size))
    # avoid accidental markers, then plant deliberate ones
    for i in range(len(p) - 1):
        if p[i] == 0x83 and p[i + 1] == 0x70:
            p[i + 1] = 0x71
    if style == "marker" and size >= 2:
        for _ in range(rng.randint(1, 3)):
            k = rng.randrange(0, size - 1)
            p[k:k + 2] = MK
    elif style == "marker_hdr" and size >= 8:
        # looks like a whole packet header inside the payload
        k = rng.randrange(0, size - 7)
        p[k:k + 6] = MK + rng.randrange(0, 700).to_bytes(2, "big") + b"\x20\x01"
    elif style == "marker_tail" and size >= 1:
        p[-1] = 0x83
    return bytes(p)


def _garbage(rng, size):
    g = bytearray(rand_bytes(rng, size))
    for i in range(len(g) - 1):
        if g[i] == 0x83 and g[i + 1] == 0x70:
            g[i + 1] = 0x00
    if g and g[0] == 0x70:
        g[0] = 0x71          # so a preceding payload ending in 0x83 cannot form a marker with us
    if size and rng.random() < 0.3:
        g[-1] = 0x83
    return bytes(g)


# small streams for the exhaustive part: (list of ops)
def _small_streams(tier):
    import random
    rng = random.Random(4)
    out = []

    def P(size, style="plain"):
        return {"op": "packet", "payload": _payload(rng, size, style).hex()}

    def G(size):
        return {"op": "garbage", "hex": _garbage(rng, size).hex()}
    out.append([P(0), P(3)])
    out.append([G(2), P(2, "marker"), P(0)])
    out.append([P(5, "marker"), G(1), P(1)])
    out.append([G(3), P(0), P(0), P(2)])
    out.append([P(4, "marker_tail"), P(4, "marker")])
    if tier == "thorough":
        out.append([P(9, "marker_hdr"), G(2), P(3), P(0)])
        out.append([G(5), P(12, "marker"), P(7, "marker_tail"), G(1), P(2)])
        out.append([P(20, "marker_hdr"), P(10, "marker"), P(0), P(1)])
        out.append([G(1), P(30, "marker"), G(4), P(6)])
        out.append([P(16), P(16, "marker"), P(16, "marker_tail")])
        out.append([G(7), P(33, "marker_hdr")])
    return out


def space(tier):
    sp = Space(ID)
    streams = _small_streams(tier)
    for si, ops in enumerate(streams):
        s, _ = build_stream(ops)
        npos = len(s) - 1
        for gap0 in (False, True):
            cnt = n_combos_upto(npos, 3)

            def fn(j, rng, ops=ops, npos=npos, gap0=gap0):
                return {"ops": ops, "cuts": list(nth_combo_upto(npos, 3, j)), "gap0": gap0}
            if gap0 and tier == "quick":
                continue
            sp.add(f"small_exhaustive[{si},{'gap0' if gap0 else 'gap'}]", cnt, fn, exhaustive=True)

    def many(j, rng):
        # hundreds to thousands of complete small packets in one TCP segment (a 64-256 KiB read)
        n = rng.choice([300, 900, 1000, 1100, 1500, 2500] if tier == "quick" else [300, 990, 1010, 1500, 2500, 4000, 6000])
        ops = [{"op": "packet", "payload": _payload(rng, rng.choice([0, 0, 1, 3, 16]), "plain").hex()} for _ in range(n)]
        return {"ops": ops, "cuts": [], "gap0": False}
    sp.add("many_packets_one_segment", 12 if tier == "quick" else 200, many)

    nsizes = 1100 if tier == "quick" else 3000

    def sizes(j, rng):
        # every packet size once (the two size bytes take every value of their range), between two neighbours
        n = j % nsizes
        ops = [{"op": "packet", "payload": _payload(rng, rng.choice([0, 3, 110]), "plain").hex()},
               {"op": "packet", "payload": _payload(rng, n, "plain").hex()},
               {"op": "packet", "payload": _payload(rng, rng.choice([0, 64]), "plain").hex()}]
        s, _ = build_stream(ops)
        return {"ops": ops, "cuts": sorted({rng.randrange(1, len(s)) for _ in range(rng.choice([0, 1, 2]))}), "gap0": False}
    sp.add("every_packet_size", nsizes, sizes, exhaustive=True)

    def long_stream(j, rng):
        # dozens of packets back to back (several KiB), cut into equal-sized TCP segments that never line up with
        # the packet boundaries
        n = rng.choice([12, 20, 30, 40])
        size = rng.choice([30, 104, 294, 150])
        ops = [{"op": "packet", "payload": _payload(rng, size + rng.choice([0, 0, 1, 3]), "plain").hex()} for _ in range(n)]
        s, _ = build_stream(ops)
        seg = rng.choice([536, 1000, 1460, 4096, 700])
        return {"ops": ops, "cuts": list(range(seg, len(s), seg)), "gap0": rng.random() < 0.3}
    sp.add("long_streams_in_equal_segments", 60 if tier == "quick" else 3000, long_stream)

    def huge(j, rng):
        # size fields at the very top of their range, cut inside the last bytes (and elsewhere)
        size = [0xFFFF, 0xFFFE, 0xFFF9, 0xFFF8, 0xFFF0, 0x8000, 0xFF00][j % 7]
        ops = [{"op": "packet", "payload": _payload(rng, 3, "plain").hex()},
               {"op": "packet", "payload": _payload(rng, size, "plain").hex()},
               {"op": "packet", "payload": _payload(rng, 5, "plain").hex()}]
        s, _ = build_stream(ops)
        end = 11 + 8 + size                     # end of the big packet
        cuts = sorted({end - k for k in rng.sample(range(1, 9), rng.randint(1, 2))} | ({rng.randrange(12, end)} if j % 2 else set()))
        return {"ops": ops, "cuts": cuts, "gap0": False}
    sp.add("largest_packets_cut_near_the_end", 14 if tier == "quick" else 140, huge)

    def embedded(j, rng):
        # a payload that contains the image of a whole packet, delivered with cuts exactly around that image
        v = rng.choice([0, 1, 5, 16, 40])
        inner = MK + v.to_bytes(2, "big") + b"\x20\x01" + _payload(rng, v + 2, "plain")
        pre = _payload(rng, rng.choice([0, 3, 9]), "plain")
        post = _payload(rng, rng.choice([0, 2, 7]), "plain")
        ops = [{"op": "packet", "payload": (pre + inner + post).hex(), "style": "marker_hdr"},
               {"op": "packet", "payload": _payload(rng, rng.choice([0, 4]), "plain").hex()}]
        if rng.random() < 0.5:
            ops.insert(0, {"op": "packet", "payload": _payload(rng, 2, "plain").hex()})
        s, _ = build_stream(ops)
        start = s.index(inner)
        cuts = sorted({start, start + len(inner)} | ({rng.randrange(1, len(s))} if rng.random() < 0.3 else set()))
        return {"ops": ops, "cuts": [c for c in cuts if 0 < c < len(s)], "gap0": False}
    sp.add("packet_image_inside_a_payload_cut_around_it", 300 if tier == "quick" else 30_000, embedded)

    def lan(j, rng):
        return {"mode": "lan", "config": {"version": 3, "key": rand_bytes(rng, 32).hex(), "token": rand_bytes(rng, 64).hex()},
                "reply": rand_bytes(rng, rng.randint(1, 60)).hex(),
                "rounds": [[rng.choice([1, 2, 5, 6, 7, 8, 9, 40, 100, 1000, rng.randint(1, 150)]), rng.choice([0, 0, 1])]
                           for _ in range(rng.randint(1, 3))]}
    sp.add("client_write_between_segments", 1500 if tier == "quick" else 150_000, lan)

    def rnd(j, rng):
        ops = []
        npk = rng.randint(1, 4)
        for k in range(npk):
            if rng.random() < 0.35:
                ops.append({"op": "garbage", "hex": _garbage(rng, rng.choice([1, 1, 2, 3, 5, 17, 64])).hex()})
            size = rng.choice([0, 0, 1, 2, 6, 7, 8, 9, 14, 15, 16, 17, 64, 104, 255, 256, 257, rng.randint(0, 600)])
            style = rng.choice(["plain", "plain", "marker", "marker", "marker_hdr", "marker_tail"])
            ops.append({"op": "packet", "payload": _payload(rng, size, style).hex(), "style": style})
        s, _ = build_stream(ops)
        n = len(s)
        style = rng.choice(["none", "one", "few", "few", "many", "many", "all", "hdr"])
        if style == "none":
            cuts = []
        elif style == "one":
            cuts = [rng.randrange(1, n)]
        elif style == "few":
            cuts = sorted({rng.randrange(1, n) for _ in range(rng.randint(2, 3))})
        elif style == "many":
            cuts = sorted({rng.randrange(1, n) for _ in range(rng.randint(4, min(60, n)))})
        elif style == "hdr":
            # cuts inside headers: positions 1..7 of each packet
            cuts = []
            pos = 0
            for op in ops:
                ln = len(bytes.fromhex(op["hex"])) if op["op"] == "garbage" else 8 + len(bytes.fromhex(op["payload"]))
                if op["op"] == "packet":
                    cuts.extend(pos + d for d in rng.sample(range(1, 8), rng.randint(1, 3)) if 0 < pos + d < n)
                pos += ln
            cuts = sorted(set(cuts))
        else:
            cuts = list(range(1, n)) if n <= 700 else sorted({rng.randrange(1, n) for _ in range(300)})
        p = {"ops": ops, "cuts": cuts, "gap0": rng.random() < 0.3}
        if rng.random() < 0.15:
            p["cancelled_reads"] = [rng.choice([TICK, 0.5, 1.999]) for _ in range(rng.randint(1, 2))]
        if rng.random() < 0.25:
            p["idle_before"] = rng.choice([2.5, 11.0, 61.0, 3700.0])
        if cuts and rng.random() < 0.25:
            p["long_gaps"] = sorted({rng.randrange(0, len(cuts) + 1) for _ in range(rng.randint(1, 3))})
            p["long_gap_s"] = rng.choice([2.5, 11.0, 61.0])
            p["gap0"] = False
        if cuts and rng.random() < 0.15 and all(op.get("style", "plain") == "plain" for op in ops):
            # a receive-queue flush (re-authentication) mid-stream; what is left of an abandoned packet must be
            # marker-free garbage for the property to apply, hence plain payloads only
            p["flush_at"] = rng.randrange(0, len(cuts))
            p["gap0"] = False
        return p
    sp.add("random", 40000 if tier == "quick" else 1_500_000, rnd)
    return sp


def simplify(plan):
    if plan.get("mode") == "lan":
        import json as _j
        for i in range(len(plan["rounds"])):
            if len(plan["rounds"]) > 1:
                c = _j.loads(_j.dumps(plan))
                del c["rounds"][i]
                yield c
        return
    cuts = plan.get("cuts", [])
    for i in range(len(cuts)):
        c = dict(plan)
        c["cuts"] = cuts[:i] + cuts[i + 1:]
        yield c
    if plan.get("gap0"):
        c = dict(plan)
        c["gap0"] = False
        yield c
    for oi, op in enumerate(plan["ops"]):
        key = "payload" if op["op"] == "packet" else "hex"
        b = bytes.fromhex(op[key])
        for newlen in (0, len(b) // 2, len(b) - 1):
            if 0 <= newlen < len(b):
                c = dict(plan)
                c["ops"] = [dict(o) for o in plan["ops"]]
                c["ops"][oi][key] = b[:newlen].hex()
                yield c
