"""C05 - V3 encrypted packet codec: interoperable for every length, tamper-evident."""
import asyncio

from .common import (REAL_BASE, STUB_BASE, Result, Space, rand_bytes, det_bytes, HOST, PORT, codec, SimDeadlock,
                     SimStepLimit)
from .session import Session

ID = "C05"
LEVEL = "fault_enumeration"
RULE = ("A case is (32-byte key, real handshake, then one of: [lengths] a request payload of length n and a response "
        "payload of length m through _LanProtocolV3.write/read, decoded/encoded by the independent codec; [tamper] one "
        "single-bit flip of an encrypted response in transit, judged at protocol level (read()) and, for the V2-in-V3 "
        "traffic LAN.send produces, at LAN level; [counter] a session of >=4200 packets on one connection). Part "
        "'lengths' enumerates n=m=0..300; 'tamper_proto' enumerates every bit of responses of 17 lengths covering all "
        "16 residues; 'tamper_lan' every bit of a LAN-level response; 'tamper_decoder_level_all_bits' hands every "
        "single-bit alteration of a response, at its original length, to _process_packet (the entry point the repo's "
        "tests pin). Distinct = distinct (key, lengths, flip); "
        "non-trivial = an encrypted packet crossed the wire in each direction."
        " Later additions: 'lengths_key_lifetime_straddle' (the key lifetime ends while the response is in flight), 'tamper_lan_frame_like_ciphertext' (responses whose ciphertext reads like a bare frame).")
ASSUMPTIONS = [
    "white-box touch point: _LanProtocolV3 write/read/authenticate are driven directly for arbitrary payload lengths "
    "(LAN.send only produces pad=6)",
    "a bit flip that turns the type nibble into HANDSHAKE_RESPONSE (0x1) is judged at LAN level only: read() returns "
    "such a packet's bytes unverified by design and LAN._read rejects them as a non-V2 payload",
    "when a flip destroys the start marker or enlarges the size field so that no complete packet exists, a timeout "
    "is accepted (nothing reaches the decoder)",
    "AES-256-CBC/SHA-256 primitives trusted",
]
COMPONENTS = {"real": REAL_BASE + ["_LanProtocolV3.authenticate/write/read, _encode_encrypted_request, "
                                   "_decode_encrypted_response; LAN.send for the LAN-level tamper part"],
              "stub": STUB_BASE}

TAMPER_LENS = [0, 1, 2, 5, 13, 14, 15, 16, 17, 29, 30, 31, 46, 62, 104, 7, 8, 9, 10, 11, 12, 3, 4, 6]


def enc_len(m):
    pad = (16 - (m + 2) % 16) % 16
    return 6 + m + 2 + pad + 32


def run(plan):
    s = Session(plan, max_iterations=(8 * plan.get("count", 0) + 20_000))
    w = s.world
    dev = s.dev
    res = Result()
    mode = plan["mode"]
    seen = []           # decoded requests as the reference codec saw them
    reply_state = {"payload": b"", "mutate": None, "padseed": 0, "sent": None, "orig": None}

    def raw_handler(conn, dec, key):
        seen.append(dec)
        m = reply_state["payload"]
        pad = (16 - (len(m) + 2) % 16) % 16
        pkt = codec.v3_encode_encrypted(key, dev._txc(conn), m, codec.T_ENCRYPTED_RESPONSE,
                                        padbytes=det_bytes(f"pad{reply_state['padseed']}", pad))
        reply_state["orig"] = pkt
        if reply_state["mutate"] is not None:
            pkt = dev._mutate(pkt, reply_state["mutate"])
        reply_state["sent"] = pkt
        if reply_state.get("lat"):
            conn.send(pkt, lat=reply_state["lat"])
        else:
            conn.send(pkt)
    dev.raw_payload_handler = raw_handler

    async def proto_session(w):
        loop = w.loop
        lanmod = w.ns.lan
        _t, proto = await loop.create_connection(lambda: lanmod._LanProtocolV3(), HOST, PORT)
        try:
            await proto.authenticate(s.token, s.key)
        except Exception as e:
            res.fail(f"genuine handshake failed: {type(e).__name__}", repr(e))
            return None
        return proto

    async def do_burst(w):
        """Several requests written back to back while the socket is under back pressure (the transport keeps a
        reference to each buffer until it is flushed), then the responses are read."""
        proto = await proto_session(w)
        if proto is None:
            return
        w.net.backpressure = plan.get("bp", 1 / 4096)
        w.net.zero_watermark = bool(plan.get("wm0"))
        w.fire("backpressure")
        payloads = [det_bytes(f"burst{plan['seed']}:{i}:{n}", n) for i, n in enumerate(plan["burst"])]
        reply_state["payload"] = b"ok"
        k0 = len(seen)
        for pl in payloads:
            try:
                proto.write(pl)
            except Exception as e:
                res.fail(f"write raised {type(e).__name__}", repr(e))
                return
        await asyncio.sleep(0.01)
        if w.net.stats["pause_writing_called"]:
            w.fire("transport_flow_control_callbacks")
        nbad = [v for v in dev.violations]
        if len(seen) - k0 != len(payloads):
            res.fail("encrypted request rejected by the independent decoder",
                     f"burst {plan['burst']}: {len(seen) - k0} of {len(payloads)} decoded; {nbad[:1]}")
            return
        prev = None
        for d, pl in zip(seen[k0:], payloads):
            if d["payload"] != pl:
                res.fail("request payload not recovered identically", f"burst {plan['burst']}")
                return
            if prev is not None and d["counter"] != (prev + 1) % 4096 and d["counter"] != prev + 1:
                res.fail("request counter is not previous+1", f"{prev} -> {d['counter']}")
                return
            prev = d["counter"]
        for _ in payloads:
            got = await proto.read()
            if got != b"ok":
                res.fail("response payload not decoded identically", "burst")
                return

    async def do_lengths(w):
        proto = await proto_session(w)
        if proto is None:
            return
        expect_counter = 1     # handshake request used counter 0
        pairs = plan["pairs"]
        if plan.get("straddle"):
            # the session key's 12 h lifetime ends while the response is on its way: the request was legitimately
            # written under the key, and the device answers under it
            await asyncio.sleep(12 * 3600 - plan["straddle"][0])
            reply_state["lat"] = plan["straddle"][1]
            pairs = pairs[:1]
            w.fire("key_lifetime_ends_while_response_in_flight")
        for n, m in pairs:
            payload = det_bytes(f"req{plan['seed']}:{n}", n)
            reply_state["payload"] = det_bytes(f"rsp{plan['seed']}:{m}", m)
            reply_state["padseed"] = n * 1000 + m
            k0 = len(seen)
            nbad = len(dev.violations)
            try:
                proto.write(payload)
            except Exception as e:
                res.fail(f"write raised {type(e).__name__}", f"n={n} {e!r}")
                return
            if len(seen) != k0 + 1:
                v = dev.violations[nbad:] or [("?", "no packet decoded", b"")]
                res.fail("encrypted request rejected by the independent decoder", f"n={n}: {v[0][1]}")
                return
            d = seen[-1]
            if d["payload"] != payload:
                res.fail("request payload not recovered identically", f"n={n}")
                return
            if d["counter"] != expect_counter & 0xFFFF and d["counter"] != expect_counter % 4096:
                res.fail("request counter is not previous+1", f"n={n} counter {d['counter']} expected {expect_counter}")
                return
            expect_counter = d["counter"] + 1
            if d["type"] != codec.T_ENCRYPTED_REQUEST:
                res.fail("request type nibble", str(d["type"]))
                return
            try:
                got = await proto.read()
            except Exception as e:
                res.fail(f"read of a genuine response raised {type(e).__name__}", f"m={m} pad={(16 - (m + 2) % 16) % 16} {e!r}")
                return
            if got != reply_state["payload"]:
                res.fail("response payload not decoded identically",
                         f"m={m} pad={(16 - (m + 2) % 16) % 16} got {len(got)} bytes")
                return
            w.probe(f"resp_pad_{(16 - (m + 2) % 16) % 16}")
            w.probe(f"req_pad_{d['pad']}")

    async def do_counter(w):
        proto = await proto_session(w)
        if proto is None:
            return
        prev = 0
        wraps = []
        reply_state["payload"] = b"ok"
        for i in range(plan["count"]):
            try:
                proto.write(b"x" * (i % 5))
            except Exception as e:
                res.fail(f"write raised {type(e).__name__} in a long session", f"packet {i}: {e!r}")
                return
            if len(seen) != i + 1:
                res.fail("encrypted request rejected by the independent decoder in a long session", f"packet {i}")
                return
            c = seen[-1]["counter"]
            if c == prev + 1:
                pass
            elif c == 0 and prev > 0:
                wraps.append(prev)
                w.probe("counter_wrapped")
            else:
                res.fail("request counter is not previous+1", f"packet {i}: {prev} -> {c}")
                return
            prev = c
            await proto.read()
        if len(set(wraps)) > 1:
            res.fail("counter wraps at different values", repr(wraps))

    async def do_tamper_proto(w):
        proto = await proto_session(w)
        if proto is None:
            return
        m = plan["m"]
        reply_state["payload"] = det_bytes(f"rsp{plan['seed']}:{m}", m)
        reply_state["padseed"] = m
        reply_state["mutate"] = {"kind": "flip", "bit": plan["bit"]}
        proto.write(b"q")
        PE = w.ns.lan.ProtocolError
        try:
            got = await proto.read()
            kind = "returned"
        except PE as e:
            got, kind = e, "protocol_error"
        except (TimeoutError, asyncio.TimeoutError) as e:
            got, kind = e, "timeout"
        except Exception as e:
            got, kind = e, "other"
        sent, orig = reply_state["sent"], reply_state["orig"]
        complete = codec.v3_reassemble(sent)
        type_to_hs = (sent[5] & 0xF) == codec.T_HANDSHAKE_RESPONSE
        if kind == "other":
            res.fail(f"tampered response raised {type(got).__name__} instead of ProtocolError",
                     f"m={m} bit={plan['bit']} (byte {plan['bit'] // 8}) {got!r}")
        elif kind == "returned":
            if type_to_hs:
                res.exempt += 1      # judged at LAN level (see ASSUMPTIONS)
                w.probe("type_flip_to_handshake_response")
            else:
                res.fail("tampered response accepted", f"m={m} bit={plan['bit']} returned {len(got)} bytes")
        elif kind == "timeout":
            if complete and complete[0][0] <= len(sent) and not w.net.protocol_exceptions:
                res.fail("tampered complete packet was not rejected (timeout instead of ProtocolError)",
                         f"m={m} bit={plan['bit']}")
            else:
                w.probe("flip_prevented_reassembly_timeout")
        if w.net.protocol_exceptions and res.ok:
            res.fail("exception escaped data_received: " + w.net.protocol_exceptions[0][1], repr(w.net.protocol_exceptions[0]))

    async def do_tamper_decoder(w):
        """The decoder entry point the repo's own tests pin (_process_packet), handed each altered packet at its
        original length - the way a packet taken from the receive queue reaches it."""
        from simkit.seams import HarnessError
        proto = await proto_session(w)
        if proto is None:
            return
        if not hasattr(proto, "_process_packet"):
            raise HarnessError("_LanProtocolV3._process_packet is gone")
        m = plan["m"]
        reply_state["payload"] = det_bytes(f"rsp{plan['seed']}:{m}", m)
        reply_state["padseed"] = m
        proto.write(b"q")
        try:
            got = await proto.read()
        except Exception as e:
            res.fail(f"genuine response raised {type(e).__name__}", repr(e))
            return
        if got != reply_state["payload"]:
            res.fail("response payload not decoded identically", f"m={m}")
            return
        orig = reply_state["orig"]
        PE = w.ns.lan.ProtocolError
        for bit in range(len(orig) * 8):
            alt = bytearray(orig)
            alt[bit // 8] ^= 1 << (bit % 8)
            if (alt[5] & 0xF) == codec.T_HANDSHAKE_RESPONSE:
                res.exempt += 1
                continue
            w.fire("bit_flip_at_decoder")
            try:
                with memoryview(bytes(alt)) as mv:
                    out = proto._process_packet(mv)
            except PE:
                continue
            except Exception as e:
                res.fail(f"tampered response raised {type(e).__name__} instead of ProtocolError",
                         f"decoder level: m={m} bit={bit} (byte {bit // 8}) {e!r}")
                return
            res.fail("tampered response accepted", f"decoder level: m={m} bit={bit} (byte {bit // 8}) returned {len(out)} bytes")
            return

    async def do_tamper_lan(w):
        ac = s.make_clients()[0]
        dev.raw_payload_handler = None
        reply = det_bytes(f"lanrsp{plan['seed']}", plan["m"])
        dev.raw_frame_handler = lambda conn, frame, key, d: [reply]
        o = await s.do({"op": "lan_auth"})
        if o.kind != "ok":
            res.fail(f"genuine handshake failed: {o.exc_type}", repr(o.exc))
            return
        if plan.get("special"):
            # among 65536 packet counters about one gives a ciphertext that reads like a bare 0xAA frame from
            # offset 8 on (aa <length> ...): a response on which a confusion between the packet layers would show
            from Crypto.Cipher import AES
            conn = w.net.conns[-1]
            skey = conn.state["keys"][-1]
            inner = codec.v2_encode(dev.device_id, reply, magic=dev.resp_magic)
            total = 6 + (len(inner) + 2 + (16 - (len(inner) + 2) % 16) % 16) + 32
            want = total - 8 - 1
            blocks = b"".join(c.to_bytes(2, "big") + inner[:14] for c in range(0x10000))
            enc = AES.new(skey, AES.MODE_ECB).encrypt(blocks)
            hit = next((c for c in range(0x10000) if enc[16 * c + 2] == 0xAA and enc[16 * c + 3] == want), None)
            if hit is None:
                res.exempt += 1
                w.probe("no_frame_like_ciphertext_under_this_key")
                return
            dev.force_counter = hit
            w.fire("frame_like_ciphertext")
        o = await s.do({"op": "send", "frame": "aa01", "retries": 1,
                        "net": [{"mutate": {"kind": "flip", "bit": plan["bit"]}}]})
        PE = w.ns.lan.ProtocolError
        if o.kind == "ok":
            res.fail("tampered response accepted at LAN level", f"bit={plan['bit']} returned {o.value!r}")
        elif isinstance(o.exc, PE):
            pass
        elif isinstance(o.exc, (TimeoutError, asyncio.TimeoutError)):
            conn = w.net.conns[0]
            if codec.v3_reassemble(bytes(conn.tx_stream)[72:]):   # 72 = handshake reply packet
                res.fail("tampered complete packet was not rejected at LAN level (timeout)", f"bit={plan['bit']}")
            else:
                w.probe("flip_prevented_reassembly_timeout")
        else:
            res.fail(f"tampered response raised {o.exc_type} at LAN level instead of ProtocolError",
                     f"bit={plan['bit']} {o.exc!r}")

    main = {"lengths": do_lengths, "burst": do_burst, "counter": do_counter, "tamper_proto": do_tamper_proto,
            "tamper_lan": do_tamper_lan, "tamper_decoder": do_tamper_decoder}[mode]
    try:
        w.run(main)
    except (SimDeadlock, SimStepLimit) as e:
        res.fail(f"liveness: {type(e).__name__}", str(e))
    res.take(w)
    res.add_fired(dev.fired)
    res.key = (mode, plan.get("seed"), repr(plan.get("pairs", plan.get("bit"))), repr(plan.get("straddle")), plan.get("m"), plan.get("count"), bool(plan.get("special")), plan["config"].get("key"),
               repr(plan.get("burst")))
    res.nontrivial = True
    return res


def space(tier):
    sp = Space(ID)
    reps = 1 if tier == "quick" else 40

    def lengths(j, rng):
        k = j % 31               # 31 runs x 10 lengths cover 0..309
        pairs = [[n, (n * 7 + 3 * (j // 31)) % 301] for n in range(k * 10, k * 10 + 10) if n <= 300]
        return {"mode": "lengths", "config": {"version": 3, "key": rand_bytes(rng, 32).hex(),
                                              "token": rand_bytes(rng, 64).hex()}, "pairs": pairs}
    sp.add("lengths", 31 * 16 * reps, lengths, exhaustive=True)

    def lengths_same(j, rng):
        n = j % 301
        return {"mode": "lengths", "config": {"version": 3, "key": rand_bytes(rng, 32).hex(),
                                              "token": rand_bytes(rng, 64).hex()}, "pairs": [[n, n]]}
    sp.add("lengths_diag", 301 * reps, lengths_same, exhaustive=True)

    def lengths_straddle(j, rng):
        p = lengths_same(j * 7, rng)
        p["straddle"] = [rng.choice([0.01, 0.25, 0.9]), rng.choice([0.5, 1.0, 1.9])]
        return p
    sp.add("lengths_key_lifetime_straddle", 43 * reps, lengths_straddle)

    tl = TAMPER_LENS[:8] if tier == "quick" else TAMPER_LENS
    idx = []
    for m in tl:
        idx.extend((m, b) for b in range(enc_len(m) * 8))

    def tamper(j, rng):
        m, b = idx[j]
        return {"mode": "tamper_proto", "config": {"version": 3}, "m": m, "bit": b, "seed": 77 + m}
    sp.add("tamper_proto", len(idx), tamper, exhaustive=True)
    lan_m = 34
    inner = 56 + 16 * (lan_m // 16 + 1)
    nbits = enc_len(inner) * 8

    def tamper_lan(j, rng):
        return {"mode": "tamper_lan", "config": {"version": 3}, "m": lan_m, "bit": j, "seed": 5}
    sp.add("tamper_lan", nbits, tamper_lan, exhaustive=True)

    def tamper_lan_special(j, rng):
        # header bits (where the type / padding / size live) and a sample of the rest, on frame-like ciphertexts
        bit = j % 64 if j % 3 else rng.randrange(nbits)
        return {"mode": "tamper_lan", "config": {"version": 3, "key": rand_bytes(rng, 32).hex(), "token": rand_bytes(rng, 64).hex()},
                "m": lan_m, "bit": bit, "seed": 5 + j, "special": True}
    sp.add("tamper_lan_frame_like_ciphertext", 400 if tier == "quick" else 20_000, tamper_lan_special)

    def tamper_dec(j, rng):
        m = (TAMPER_LENS + [34, 120, 300])[j % (len(TAMPER_LENS) + 3)]
        return {"mode": "tamper_decoder", "config": {"version": 3, "key": rand_bytes(rng, 32).hex(),
                                                     "token": rand_bytes(rng, 64).hex()}, "m": m, "seed": 900 + j}
    sp.add("tamper_decoder_level_all_bits", (len(TAMPER_LENS) + 3) * (2 if tier == "quick" else 40), tamper_dec, exhaustive=True)

    def burst(j, rng):
        n = rng.randint(2, 6)
        return {"mode": "burst", "config": {"version": 3, "key": rand_bytes(rng, 32).hex(), "token": rand_bytes(rng, 64).hex()},
                "burst": [rng.choice([0, 1, 13, 14, 15, 30, 62, 104, rng.randint(0, 300)]) for _ in range(n)],
                "bp": rng.choice([1 / 4096, 1 / 1024]), "wm0": rng.random() < 0.5}
    sp.add("burst_under_backpressure", 1500 if tier == "quick" else 400_000, burst)

    def counter(j, rng):
        return {"mode": "counter", "config": {"version": 3, "key": rand_bytes(rng, 32).hex()},
                "count": 4300 if tier == "quick" or j else 70000}
    sp.add("counter", 2 if tier == "quick" else 3, counter, wall_limit=600)
    return sp
