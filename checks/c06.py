"""C06 - V3 handshake: key agreement when genuine, sound rejection otherwise."""
import asyncio
from .common import (REAL_BASE, STUB_BASE, Result, Space, rand_bytes, rand_id, codec, SimDeadlock, SimStepLimit)
from .session import Session, compare_view

ID = "C06"
LEVEL = "fault_enumeration"
RULE = ("A case is (token, key, credential form hex/bytes, device nonce, scenario fresh|stored-credentials, one "
        "alteration of the handshake reply: none / single-bit flip of the 64-byte body (all 512) / length change / "
        "other packet type in place of the reply / reply under a different key / error packet / silence / a flip in "
        "the unauthenticated 8 header bytes (containment only)), followed by a refresh. Part 'enumerated' sweeps every "
        "listed alteration in both scenarios; 'random_keys' repeats random alterations under fresh random "
        "credentials. Distinct = distinct (credentials, scenario, alteration); non-trivial = a handshake reply "
        "crossed the wire or was withheld."
        " Later additions: re-authentication with the very pair that is stored while the reply is altered (stored pair must survive, the next poll re-handshakes with it); genuine replies that are late or follow lost requests (must succeed), a status report pushed right behind the reply (must succeed and the report must be readable), a refused token followed by a hang-up and then the genuine credentials, a reset / FIN instead of a reply, printable raw keys and tokens.")
ASSUMPTIONS = [
    "RefDevice issues reply = AES-256-CBC(key, nonce) || SHA-256(nonce), session key = nonce XOR key (vendor scheme)",
    "flips in the 8 header/counter bytes are unauthenticated by protocol design: only containment is asserted there",
    "in the stored-credentials scenario the client re-authenticates with a second credential pair the device answers "
    "under its own key (a reply under a different key), or (flag 'same') with the stored pair itself while the reply is altered - the stored pair must survive",
]
COMPONENTS = {"real": REAL_BASE + ["AirConditioner.authenticate -> LAN.authenticate -> _LanProtocolV3.authenticate/"
                                   "_get_local_key; AirConditioner.refresh afterwards"], "stub": STUB_BASE}

LEN_CHANGES = [0, 1, 16, 32, 48, 63, 65, 80, 96, 128]
TYPES = [0x0, 0x2, 0x3, 0x4, 0x5, 0x6, 0x7, 0x8, 0x9, 0xA, 0xB, 0xC, 0xD, 0xE, 0xF]


def alterations():
    out = [{"name": "genuine"}]
    out += [{"name": f"flip{b}", "hs": {"flip": b}} for b in range(512)]
    out += [{"name": f"len{n}", "hs": {"len": n}} for n in LEN_CHANGES]
    out += [{"name": f"type{t:x}", "hs": {"type": t}} for t in TYPES]
    out += [{"name": f"type{t:x}_len{n}", "hs": {"type": t, "len": n}} for t in (0x3, 0x6) for n in (0, 30, 46, 62, 78)]
    out += [{"name": "wrong_key", "hs": {"wrong_key": True}}, {"name": "error", "hs": {"error": True}},
            {"name": "silence", "hs": {"drop": True}}]
    for last in ({"error": True}, {"raw": "8370004020" + "01" + "ab" * 66}, {"wrong_key": True}, {"flip": 5}):
        # silence, silence, then a rejection - all inside one authenticate()
        nm = sorted(last)[0]
        out.append({"name": f"lost_lost_{nm}", "hs_list": [{"drop": True}, {"drop": True}, dict(last)], "hs": dict(last)})
        out.append({"name": f"lost_{nm}", "hs_list": [{"drop": True}, dict(last), dict(last)], "hs": dict(last)})
    for lat in (0.001, 0.5, 1.9):
        out.append({"name": f"reset_instead_of_reply_{lat}", "hs": {"drop": True, "close": True, "rst": True, "lat": lat}})
        out.append({"name": f"fin_instead_of_reply_{lat}", "hs": {"drop": True, "close": True, "lat": lat}})
    out += [{"name": f"hdrflip{b}", "hs": {"hdr_flip": b}, "containment_only": True} for b in range(64)]
    out += [{"name": f"padnibble{n}", "hs": {"pad_nibble": n}, "containment_only": True} for n in (1, 7, 15)]
    # an incomplete packet first (announcing more / fewer bytes than a reply), then - after the retry - a genuine reply:
    # the device does prove knowledge of the key, so authentication must succeed
    for size in ("0060", "0100", "0030", "0040"):
        for n in (0, 10, 64):
            if n >= int(size, 16) + 2:
                continue            # that would be a complete (wrong-length) packet, not a partial one
            out.append({"name": f"partial{size}_{n}_then_genuine", "expect_success": True,
                        "hs_list": [{"raw": "8370" + size + "2001" + "ab" * n}, {}, {}]})
    # a genuine reply that takes its time: lost requests, late replies - still inside the three 2 s read windows,
    # so the device does prove knowledge of the key and authentication must succeed
    for lat in (0.5, 1.0, 1.5, 1.9):
        out.append({"name": f"late_{lat}", "expect_success": True, "hs_list": [{"lat": lat}]})
        out.append({"name": f"lost_late_{lat}", "expect_success": True, "hs_list": [{"drop": True}, {"lat": lat}]})
        out.append({"name": f"lost_lost_late_{lat}", "expect_success": True,
                    "hs_list": [{"drop": True}, {"drop": True}, {"lat": lat}]})
    # the device pushes a status report right behind its reply (same segment, or the next one in the same instant)
    out.append({"name": "genuine_then_push_same_segment", "expect_success": True, "hs_list": [{"post_push": "same"}]})
    out.append({"name": "genuine_then_push_next_segment", "expect_success": True, "hs_list": [{"post_push": "next"}]})
    out.append({"name": "lost_then_genuine_then_push", "expect_success": True,
                "hs_list": [{"drop": True}, {"post_push": "same"}]})
    for how in ("fin", "rst"):
        for pause in (0.01, 0.5, 3.0):
            out.append({"name": f"refused_{how}_pause{pause}_then_genuine", "expect_success": True, "refused_first": how,
                        "pause": pause, "hs_list": [{}]})
    return out


ALTS = alterations()


def run(plan):
    s = Session(plan, max_iterations=6000)
    w = s.world
    dev = s.dev
    res = Result()
    alt = plan["alt"]
    hs = alt.get("hs")
    scenario = plan["scenario"]
    genuine = hs is None
    if alt.get("expect_success"):
        genuine = True
        if scenario != "fresh":
            scenario = "fresh"
    containment_only = alt.get("containment_only", False)
    same = bool(plan.get("same")) and scenario == "stored"

    async def main(w):
        ac = s.make_clients()[0]
        AE = w.ns.lan.AuthenticationError
        first_log = 0
        stored = None
        if scenario == "stored":
            o = await s.do({"op": "auth"})
            if o.kind != "ok":
                res.fail(f"genuine handshake raised {o.exc_type}", repr(o.exc))
                return
            stored = (ac.token, ac.key)
            if stored != (s.token.hex(), s.key.hex()):
                res.fail("stored credentials differ from the supplied ones after success", repr(stored))
                return
            if plan.get("expired"):
                # the 12 h authentication lifetime elapses before the failed re-authentication
                w.clock.jump(12 * 3600 + 61)
                w.fire("clock_jump_auth")
            first_log = len(dev.log)
            # second pair: the device does not know it and answers under its own key
            tok2 = bytes(b ^ 0xA5 for b in s.token)
            key2 = bytes(b ^ 0x5A for b in s.key)
            if s.cfg.get("cred_form", "hex") == "hex":
                cred = (tok2.hex(), key2.hex())
            else:
                cred = (tok2, key2)
            d = dict(hs or {})
            d["force_reply"] = True
            if same:
                # the re-authentication uses the very pair that is stored (an application refreshing its session, or
                # one that simply calls authenticate() before every poll); the unit knows it, the reply is altered
                tok2 = s.token
                cred = (s.token.hex(), s.key.hex()) if s.cfg.get("cred_form", "hex") == "hex" else (s.token, s.key)
                d.pop("force_reply")
                w.fire("reauth_with_the_stored_pair")
            dev.hs_script = [dict(d) for _ in range(3)]
            from simkit.world import capture
            o = await capture(w, ac.authenticate(*cred))
            dev.hs_script = []
            supplied = tok2
        else:
            if plan.get("lifetime") is not None:
                # a connection-lifetime limit is (or was) configured; it says when to reconnect, not whether a genuine
                # handshake counts
                ac.set_max_connection_lifetime(plan["lifetime"])
                if plan.get("lifetime_then_none"):
                    o0 = await s.do({"op": "auth"})
                    if o0.kind != "ok":
                        res.fail(f"genuine handshake raised {o0.exc_type}", repr(o0.exc))
                        return
                    ac.set_max_connection_lifetime(None)
                    await asyncio.sleep(plan["lifetime"] + 5)
                    first_log = len(dev.log)
                w.fire("connection_lifetime_configured_during_handshake")
            if alt.get("refused_first"):
                # history on this object: an unknown token is refused with an ERROR packet and the unit hangs up;
                # a moment later the genuine credentials are tried
                o0 = await s.do({"op": "auth", "cred": "bad_token", "hs": [{"close": True, "rst": alt["refused_first"] == "rst"}]})
                if o0.kind == "ok":
                    res.fail("authentication succeeded on a reply that does not prove the key", "refused token")
                    return
                if not isinstance(o0.exc, AE):
                    res.fail(f"authenticate raised {o0.exc_type} (not AuthenticationError)", f"{alt['name']}: {o0.exc!r}")
                    return
                await asyncio.sleep(alt.get("pause", 0.5))
                first_log = len(dev.log)
            op = {"op": "auth"}
            if hs:
                op["hs"] = [dict(hs) for _ in range(3)]
            if alt.get("hs_list"):
                op["hs"] = [dict(x) for x in alt["hs_list"]]
            o = await s.do(op)
            supplied = s.token
        # ---- outcome
        escaped = o.kind == "exc" and not isinstance(o.exc, AE)
        if escaped:
            res.fail(f"authenticate raised {o.exc_type} (not AuthenticationError)", f"{alt['name']} {scenario}: {o.exc!r}")
            return
        must_fail = (not genuine and not containment_only) or (scenario == "stored" and not same)
        if same and genuine and o.kind != "ok":
            res.fail(f"genuine handshake raised {o.exc_type}", f"re-authentication with the stored pair: {o.exc!r}")
            return
        if must_fail and o.kind == "ok":
            res.fail("authentication succeeded on a reply that does not prove the key", f"{alt['name']} {scenario}")
            return
        if genuine and scenario == "fresh" and o.kind != "ok":
            res.fail(f"genuine handshake raised {o.exc_type}", repr(o.exc))
            return
        if containment_only:
            # unauthenticated header bytes: only containment is asserted (also for the following refresh)
            o2 = await s.do({"op": "refresh"})
            if o2.kind != "ok":
                res.fail(f"refresh after authentication raised {o2.exc_type}", f"{alt['name']} {scenario}: {o2.exc!r}")
            return
        # ---- wire: on the authenticating connection only handshake requests with the supplied token
        evs = dev.log[first_log:]
        for e in evs:
            if e["kind"] == "hs_req" and e["token"] != supplied:
                res.fail("handshake request carries a token other than the supplied one", e["token"].hex()[:32])
                return
        if o.kind != "ok":
            if any(e["kind"] in ("enc_req", "enc_bad", "v3_other", "bad_v3") for e in evs):
                res.fail("something other than handshake requests was sent during a failed authentication",
                         repr([e["kind"] for e in evs]))
                return
            if scenario == "fresh" and (ac.token is not None or ac.key is not None):
                res.fail("credentials stored although authentication failed", f"{alt['name']}")
                return
            if scenario == "stored" and (ac.token, ac.key) != stored:
                res.fail("previously stored token/key replaced by a failed authentication", f"{alt['name']}")
                return
        if o.kind == "ok" and plan.get("lifetime") is None and any(x.get("post_push") for x in (alt.get("hs_list") or [])):
            # the status report the unit pushed right behind its handshake reply was encrypted under the new session
            # key: it is readable, and is handed out with the next exchange's frames
            frame = w.ns.command.GetStateCommand().tobytes().hex()
            o3 = await s.do({"op": "send", "frame": frame, "retries": 1})
            if o3.kind != "ok":
                res.fail(f"exchange after a successful handshake raised {o3.exc_type}", f"{alt['name']}: {o3.exc!r}")
                return
            if len(o3.value) != 2:
                res.fail("report pushed right behind the handshake reply was lost",
                         f"{alt['name']}: the next exchange returned {len(o3.value)} frame(s) instead of report + response")
                return
        # ---- following refresh
        n0 = len(dev.log)
        o2 = await s.do({"op": "refresh"})
        if o2.kind != "ok":
            res.fail(f"refresh after authentication raised {o2.exc_type}", f"{alt['name']} {scenario}: {o2.exc!r}")
            return
        evs2 = dev.log[n0:]
        kinds = [e["kind"] for e in evs2]
        if o.kind == "ok":
            # both sides hold the same session key: encrypted exchange works in both directions
            if not ac.online:
                res.fail("encrypted exchange after a successful handshake failed (offline)", f"{alt['name']} {scenario}")
                return
            bad = compare_view(ac, dev.state, dev.state_len)
            if bad:
                res.fail("state decoded wrongly after a successful handshake", repr(bad))
                return
            if any(k in ("enc_bad",) for k in kinds):
                res.fail("data packet not decryptable under the issued session key", repr(kinds))
                return
        elif scenario == "fresh":
            # unauthenticated session: nothing, or a handshake first (there are no stored credentials -> nothing)
            if any(k in ("enc_req", "enc_bad", "v2_req") for k in kinds):
                res.fail("data sent on a session whose authentication failed", repr(kinds))
                return
            if ac.online:
                res.fail("device reported online without an authenticated session", "")
                return
        else:
            # stored scenario: the stored pair must still work without user intervention
            if plan.get("expired"):
                first = next((e for e in evs2 if e["kind"] in ("hs_req", "enc_req", "enc_bad")), None)
                if first is not None and first["kind"] != "hs_req":
                    res.fail("data sent under an expired session after a failed re-authentication", repr(kinds[:6]))
                    return
            for e in evs2:
                if e["kind"] == "hs_req" and e["token"] != s.token:
                    res.fail("re-handshake used a token other than the stored one", e["token"].hex()[:32])
                    return
                if e["kind"] in ("enc_req", "enc_bad"):
                    break
            if not ac.online:
                res.fail("refresh with intact stored credentials failed after a rejected re-authentication",
                         f"{alt['name']}: {kinds}")
                return
            bad = compare_view(ac, dev.state, dev.state_len)
            if bad:
                res.fail("state decoded wrongly after re-using the stored credentials", repr(bad))

    try:
        w.run(main)
    except (SimDeadlock, SimStepLimit) as e:
        res.fail(f"liveness: {type(e).__name__}", str(e))
    if res.ok and w.net.protocol_exceptions:
        res.fail("exception escaped data_received: " + w.net.protocol_exceptions[0][1], repr(w.net.protocol_exceptions[0]))
    res.take(w)
    res.add_fired(dev.fired)
    res.key = (plan["config"].get("key"), plan["config"].get("cred_form"), scenario, same, alt["name"], bool(plan.get("expired")),
               plan.get("lifetime"), bool(plan.get("lifetime_then_none")))
    res.nontrivial = True
    return res


def space(tier):
    sp = Space(ID)

    def enum(j, rng):
        alt = ALTS[j % len(ALTS)]
        scenario = ["fresh", "stored"][(j // len(ALTS)) % 2]
        return {"config": {"version": 3, "cred_form": ["hex", "bytes"][(j // (2 * len(ALTS))) % 2],
                           "token": rand_bytes(rng, 64).hex(), "key": rand_bytes(rng, 32).hex(),
                           "device_id": rand_id(rng)}, "scenario": scenario, "alt": alt,
                "expired": scenario == "stored" and (j // (4 * len(ALTS))) % 2 == 1,
                "same": scenario == "stored" and (j // (8 * len(ALTS))) % 2 == 1}
    sp.add("enumerated", len(ALTS) * 2 * (8 if tier == "quick" else 16), enum, exhaustive=True)

    def rnd(j, rng):
        alt = rng.choice(ALTS) if rng.random() < 0.9 else {"name": "genuine"}
        p = {"config": {"version": 3, "cred_form": rng.choice(["hex", "bytes", "hex", "bytes", "hex_bytes", "bytes_hex"]),
                        "token": rand_bytes(rng, 64).hex(), "key": rand_bytes(rng, 32).hex(),
                        "device_id": rand_id(rng)}, "scenario": rng.choice(["fresh", "stored"]), "alt": alt,
             "expired": rng.random() < 0.4}
        if rng.random() < 0.06:
            # raw token / key whose every byte happens to be printable: hex digits, digits only, letters, spaces
            alpha = rng.choice(["0123456789abcdef", "0123456789ABCDEF", "0123456789", "abcdefghijklmnopqrstuvwxyz", " 09afAF"])
            p["config"]["key"] = "".join(rng.choice(alpha) for _ in range(32)).encode().hex()
            if rng.random() < 0.5:
                p["config"]["token"] = "".join(rng.choice(alpha) for _ in range(64)).encode().hex()
            p["config"]["cred_form"] = "bytes"
            p["alt"] = rng.choice([{"name": "genuine"}, alt])
        if p["scenario"] == "fresh" and rng.random() < 0.15:
            p["lifetime"] = rng.choice([1, 2, 5, 30])
            # (the variant with an earlier successful handshake only where the judged one is genuine too)
            p["lifetime_then_none"] = rng.random() < 0.4 and (p["alt"]["name"] == "genuine" or bool(p["alt"].get("expect_success")))
        p["same"] = p["scenario"] == "stored" and rng.random() < 0.35
        return p
    sp.add("random_keys", 8000 if tier == "quick" else 1_500_000, rnd)
    return sp
