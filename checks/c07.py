"""C07 - V3 session discipline: no data before handshake, right key, bounded counter."""
import asyncio
import bisect

from .common import REAL_BASE, STUB_BASE, Result, Space, rand_bytes, SimDeadlock, SimStepLimit
from .session import Session

ID = "C07"
LEVEL = "exploration"
RULE = ("A case is a V3 history of up to 10 events over {refresh, apply, LAN.send, explicit authenticate with good / "
        "wrong-token / wrong-key credentials, device silent on handshake or on data, device error packet, peer FIN/RST "
        "while idle or while the client waits, connect refused, clock jump across (or safely short of) the 12 h "
        "authentication lifetime, clock jump across a configured max connection lifetime (None/30 s/1 h), idle time, "
        "cancellation at a drawn instant}; part 'long_session' sends > 4096 (quick) / > 65,536 (thorough) data packets "
        "on one connection. Invariants I1-I4 are evaluated over the device-side wire log. Distinct = distinct history; "
        "non-trivial = at least one fault, jump, bad credential or cancellation took effect."
        " Later additions: connection lifetimes of 1 s to 7 days, a host zone whose daylight-saving time changes during the history, a bystander pair, bursts of 3-100 unread reports followed by a re-authentication.")
ASSUMPTIONS = [
    "no response delays here, so 'the latest handshake the client accepted' is the latest genuine reply the device "
    "sent on that connection (delays are C08's subject)",
    "expiry checks happen at the start of an exchange: a packet may trail the expiry instant by the duration of its "
    "own exchange; jumps are drawn >= 60 s clear of the boundary on either side",
    "early re-handshakes are never flagged",
]
COMPONENTS = {"real": REAL_BASE + ["LAN.send/authenticate/_connect/_alive, _LanProtocolV3.authenticated/write counter, "
                                   "Device._send_command, AirConditioner.refresh/apply/authenticate"],
              "stub": STUB_BASE}

H12 = 12 * 3600


def run(plan):
    long_n = plan.get("long_session", 0)
    s = Session(plan, max_iterations=6000 + 12 * long_n)
    lanmod = s.world.ns.lan
    w = s.world
    dev = s.dev
    res = Result()
    op_ranges = []          # (log_start, log_end, op, expected_token_for_handshakes)
    offsets = [(0, 0.0)]    # (device-log index at the jump, cumulative wall offset): order, not time, decides
    lifetimes = [(0.0, None)]

    def wall(t, idx):
        i = bisect.bisect_right([x[0] for x in offsets], idx) - 1
        return t + offsets[i][1]

    def lifetime_at(t):
        i = bisect.bisect_right([x[0] for x in lifetimes], t) - 1
        return lifetimes[i][1]

    async def main(w):
        ac = s.make_clients()[0]
        lanmod = w.ns.lan
        PE = lanmod.ProtocolError
        if plan["config"].get("backpressure"):
            w.net.backpressure = 1 / 4096
            w.fire("backpressure")
        stored = [None]
        any_cancel = [False]
        frame = w.ns.command.GetStateCommand().tobytes().hex()
        if plan.get("long_proto"):
            # > 65,536 packets on one connection, at protocol level (cheap enough for the quick tier)
            from .common import HOST, PORT
            op_ranges.append((0, 10 ** 9, "long", s.token, "good", None))
            _t, proto = await w.loop.create_connection(lambda: lanmod._LanProtocolV3(), HOST, PORT)
            try:
                await proto.authenticate(s.token, s.key)
            except Exception as e:
                res.fail(f"genuine handshake raised {type(e).__name__}", repr(e))
                return
            dev.raw_payload_handler = lambda conn, dec, key: None
            for i in range(plan["long_proto"]):
                try:
                    proto.write(b"ab")
                except Exception as e:
                    res.fail(f"long session: write raised {type(e).__name__}", f"after {i} data packets: {e!r}")
                    return
                if i % 4096 == 0:
                    await asyncio.sleep(0)
            # the authentication lifetime elapses on this long-lived connection: handshake again, then more data
            offsets.append((len(dev.log), offsets[-1][1] + H12 + 61))
            w.clock.jump(H12 + 61)
            w.fire("clock_jump")
            try:
                await proto.authenticate(s.token, s.key)
                proto.write(b"cd")
                proto.write(b"ef")
            except Exception as e:
                res.fail(f"long session: re-handshake raised {type(e).__name__}", repr(e))
            return
        if long_n:
            o = await s.do({"op": "auth"})
            if o.kind != "ok":
                res.fail(f"genuine handshake raised {o.exc_type}", repr(o.exc))
                return
            op_ranges.append((0, 10 ** 9, "long", s.token, "good", None))
            for i in range(long_n):
                try:
                    await ac._lan.send(bytes.fromhex(frame), retries=1)
                except Exception as e:
                    res.fail(f"long session: send raised {type(e).__name__}", f"after {i} data packets: {e!r}")
                    return
            # the authentication lifetime elapses on this long-lived connection: the next exchanges re-handshake
            offsets.append((len(dev.log), offsets[-1][1] + H12 + 61))
            w.clock.jump(H12 + 61)
            w.fire("clock_jump")
            for _ in range(2):
                try:
                    await ac._lan.send(bytes.fromhex(frame), retries=1)
                except Exception as e:
                    res.fail(f"long session: send after expiry raised {type(e).__name__}", repr(e))
                    return
            return
        for op in plan["ops"]:
            kind = op["op"]
            n0 = len(dev.log)
            # the token the client is configured with at this moment (its public attribute)
            expected_tok = bytes.fromhex(ac.token) if ac.token else None
            if not any_cancel[0]:
                # the model's own view: the token of the last authenticate() that succeeded (after a cancelled
                # handshake what was stored is not determined, and the object's attribute is taken instead)
                expected_tok = stored[0]
            if kind in ("auth", "lan_auth"):
                tok, _k = s.creds(op.get("cred", "good"))
                expected_tok = bytes.fromhex(tok) if isinstance(tok, str) else tok
            if kind == "jump":
                offsets.append((len(dev.log), offsets[-1][1] + op["s"]))
            if kind == "lifetime":
                lifetimes.append((w.loop.time(), op["s"]))
            if kind == "send":
                op = dict(op, frame=frame)
            o = await s.do(op)
            t_cancel = (o.t1 if (o is not None and o.kind == "cancelled") else None)
            if o is not None and o.kind == "ok" and op.get("cancel") is not None and o.t1 - o.t0 >= op["cancel"]:
                t_cancel = o.t0 + op["cancel"]      # cancellation was swallowed (send() turns it into a timeout)
            op_ranges.append((n0, len(dev.log), kind, expected_tok, op.get("cred", "good"), t_cancel))
            if o is not None and o.kind == "cancelled":
                any_cancel[0] = True
            if o is None:
                continue
            if kind in ("auth",):
                allowed = o.kind in ("ok", "cancelled") or isinstance(o.exc, lanmod.AuthenticationError)
            elif kind in ("send", "lan_auth"):
                allowed = o.kind in ("ok", "cancelled") or isinstance(o.exc, (PE, TimeoutError, asyncio.TimeoutError))
            else:
                allowed = o.kind in ("ok", "cancelled")
            if not allowed:
                res.fail(f"{kind} raised {o.exc_type}", repr(o.exc))
                return
            if kind in ("auth", "lan_auth") and o.kind == "ok":
                if op.get("cred", "good") != "good" and not any_cancel[0]:
                    # (after a cancelled handshake a stale genuine reply may legitimately answer this one)
                    res.fail("authentication with wrong credentials succeeded", op.get("cred"))
                    return
                stored[0] = expected_tok
            if kind in ("auth", "lan_auth") and o.kind == "cancelled" and op.get("cred", "good") == "good":
                # cancelled during the post-authentication sleep: credentials may or may not be stored
                if ac.token is not None:
                    stored[0] = s.token

    try:
        w.run(s.with_bystander(main, res))
    except (SimDeadlock, SimStepLimit) as e:
        res.fail(f"liveness: {type(e).__name__}", str(e))

    # ---------------- history invariants over the device-side log ----------------
    if res.ok:
        conns = {}
        for idx, e in enumerate(dev.log):
            conns.setdefault(e["cid"], []).append((idx, e))
        wraps = set()
        for cid, evs in conns.items():
            connect_t = evs[0][1]["t"]
            connect_idx = evs[0][0]
            lt = lifetime_at(connect_t - 1e-9)
            last_hs_reply_t = None
            last_hs_idx = 0
            accepted = set()         # key indices the client may hold (latest accepted handshake; 2 on a tie)
            loose = False
            prev_counter = None
            for idx, e in evs:
                k = e["kind"]
                if k in ("enc_bad", "bad_v3", "v3_other"):
                    res.fail(f"I1/I2: client sent a packet the device cannot accept ({k}: {e.get('err', e.get('ptype'))})",
                             f"connection {cid}, keys issued {e.get('nkeys')}")
                    break
                if k == "hs_reply" and e["genuine"]:
                    rng_ = [r for r in op_ranges if r[0] <= idx < r[1]]
                    # the client accepts a genuine reply iff it used the device's key (reference session model)
                    cancelled_before = any(r[5] is not None and r[5] <= e["t"] + 1.0 for r in op_ranges)
                    if cancelled_before:
                        # a cancelled handshake may leave a genuine reply in flight that a later handshake
                        # legitimately consumes: from here on any delivered genuine key is acceptable
                        loose = True
                        accepted.add(e["key_index"])
                        if last_hs_reply_t is None:
                            last_hs_reply_t, last_hs_idx = e["t"], idx
                    elif not rng_ or rng_[0][4] == "good":
                        # delivered to the client before the operation was cancelled?
                        conn = w.net.conns[cid]
                        t_del = next((t for (t, _a, b) in conn.deliveries if b >= e["end"]), None)
                        t_c = rng_[0][5] if rng_ else None
                        if t_del is None or (t_c is not None and t_c < t_del - 1e-9):
                            pass                                  # never processed by the client
                        elif t_c is not None and abs(t_c - t_del) <= 1e-9:
                            accepted.add(e["key_index"])          # tie: either
                            w.probe("cancel_tied_with_handshake_reply")
                        else:
                            accepted = {e["key_index"]}
                            last_hs_reply_t, last_hs_idx = e["t"], idx
                if k == "hs_req":
                    rng_ = [r for r in op_ranges if r[0] <= idx < r[1]]
                    exp = rng_[0][3] if rng_ else None
                    if exp is None:
                        res.fail("I1: handshake request although no credentials are configured", "")
                        break
                    if e["token"] != exp:
                        res.fail("I1: handshake request carries a token other than the configured one",
                                 f"op {rng_[0][2]}: {e['token'].hex()[:16]} != {exp.hex()[:16]}")
                        break
                if k == "enc_req":
                    if last_hs_reply_t is None:
                        res.fail("I1: data packet before a successful handshake on its connection", f"connection {cid}")
                        break
                    if e["key_index"] not in accepted:
                        res.fail("I2: data packet not encrypted under the key of the latest accepted handshake",
                                 f"key index {e['key_index']}, latest accepted {sorted(accepted)}")
                        break
                    age = wall(e["t"], idx) - wall(last_hs_reply_t, last_hs_idx)
                    if age > H12 + 30 and not loose:
                        res.fail("I4: data sent more than 12 h after the last handshake without re-authenticating",
                                 f"age {age:.0f} s")
                        break
                if k in ("hs_req", "enc_req"):
                    c = e["counter"]
                    if prev_counter is None:
                        if c != 0:
                            res.fail("I3: first packet on a connection has a non-zero counter", str(c))
                            break
                    elif c == prev_counter + 1:
                        pass
                    elif c == 0:
                        wraps.add(prev_counter)
                    else:
                        res.fail("I3: packet counter is not previous+1", f"{prev_counter} -> {c}")
                        break
                    prev_counter = c
                    if lt is not None:
                        cage = wall(e["t"], idx) - wall(connect_t, connect_idx)
                        if cage > lt + 30:
                            res.fail("I4: packet on a connection older than max_connection_lifetime",
                                     f"age {cage:.0f} s > {lt} s")
                            break
            if not res.ok:
                break
        if res.ok and len(wraps) > 1:
            res.fail("I3: counter wraps at different values", repr(sorted(wraps)))
        if res.ok and wraps:
            w.probe("counter_wrapped")
            if max(wraps) > 0xFFFF:
                res.fail("I3: wrap point beyond the 2-byte field", repr(wraps))
    res.take(w)
    res.add_fired(dev.fired)
    for k, v in w.net.stats.items():
        if k.startswith("connect_"):
            res.fired[k] = res.fired.get(k, 0) + v
    ncancel = sum(1 for o in s.outcomes if o is not None and o.kind == "cancelled")
    if ncancel:
        res.fired["cancellation"] = ncancel
    res.key = res.digest
    res.nontrivial = (bool(res.fired) or any(op.get("cred", "good") != "good" for op in plan.get("ops", []))
                      or bool(long_n) or bool(plan.get("long_proto")))
    return res


# ---------------------------------------------------------------------------------------------
E = 1.0 / 1024


def gen_plan(j, rng):
    ops = []
    lifetime = rng.choice([None, None, 30, 3600, 86400, 7 * 86400, 90000, 1, 43200])
    if lifetime is not None:
        ops.append({"op": "lifetime", "s": lifetime})
    # the library learns that the device is V3 from the first authenticate() call (good, bad or faulted)
    first = {"op": "auth", "cred": rng.choice(["good", "good", "good", "bad_token", "bad_key"])}
    f = rng.random()
    if f < 0.15:
        first["hs"] = [{"drop": True}] * rng.randint(1, 3)
    elif f < 0.2:
        first["hs"] = [{"error": True}]
    elif f < 0.25:
        first["conn"] = [["refuse", E]]
    ops.append(first)
    n = rng.randint(1, 9)
    for _ in range(n):
        r = rng.random()
        if r < 0.30:
            op = {"op": rng.choice(["refresh", "refresh", "apply", "send"])}
            if op["op"] == "apply":
                op["set"] = {"target_temperature": rng.randint(34, 60) / 2}
            if op["op"] == "send":
                op["retries"] = rng.randint(1, 3)
            f = rng.random()
            if f < 0.15:
                op["net"] = [{"drop": True}] * rng.randint(1, 3)
            elif f < 0.25:
                op["net"] = [{"error": True}]
            elif f < 0.35:
                op["net"] = [{"close": "before", "rst": rng.random() < 0.5}]
            elif f < 0.42:
                op["net"] = [{"close": "after", "rst": rng.random() < 0.5, "same_tick": rng.random() < 0.5}]
            elif f < 0.50:
                op["hs"] = [{"drop": True}] * rng.randint(1, 3)
            elif f < 0.55:
                op["hs"] = [{"error": True}]
            elif f < 0.62:
                op["conn"] = [["refuse", E]]
            elif f < 0.70:
                op["cancel"] = rng.choice([E / 2, E, 3 * E, 0.5, 1.0 + E, 1.0 + 3 * E, 2.5])
                if rng.random() < 0.5:
                    op["net"] = [{"drop": True}] * 3
                    op["hs"] = [{"drop": True}] * rng.randint(0, 3)
        elif r < 0.45:
            op = {"op": rng.choice(["auth", "lan_auth"]), "cred": rng.choice(["good", "good", "bad_token", "bad_key"])}
            f = rng.random()
            if f < 0.2:
                op["hs"] = [{"drop": True}] * rng.randint(1, 3)
            elif f < 0.3:
                op["hs"] = [{"error": True}]
            elif f < 0.4:
                op["cancel"] = rng.choice([E / 2, E, 3 * E, 0.5, 1.0 + E, 2.5])
            elif f < 0.45:
                op["hs"] = [{"close": True, "rst": rng.random() < 0.5}]
        elif r < 0.58:
            margin = rng.choice([60, 61, 300, 3600])
            op = {"op": "jump", "s": rng.choice([H12 + margin, H12 - margin, 2 * H12, H12 // 2])}
        elif r < 0.70:
            lt = lifetime or 30
            margin = rng.choice([60, 120])
            op = {"op": "jump", "s": rng.choice([lt + margin, max(1, lt - margin), 5])}
        elif r < 0.78:
            op = {"op": "lifetime", "s": rng.choice([None, 30, 3600, 86400, 2 * 86400, 86401])}
            lifetime = op["s"]
        elif r < 0.80:
            # a backlog of unread reports, then an explicit re-authentication on the same connection
            ops.append({"op": "dev_burst", "n": rng.choice([3, 31, 32, 33, 40, 100])})
            op = {"op": "auth", "cred": "good"} if rng.random() < 0.7 else {"op": "refresh"}
        elif r < 0.88:
            op = {"op": "dev_close", "rst": rng.random() < 0.4}
        else:
            op = {"op": "idle", "d": rng.choice([0.01, 1.0, 29.0, 31.0, 100.0])}
        ops.append(op)
    # always end with plain exchanges so that the discipline after the last event is observed
    ops.append({"op": "refresh"})
    ops.append({"op": "send", "retries": 1})
    cfg = {"version": 3, "token": rand_bytes(rng, 64).hex(), "key": rand_bytes(rng, 32).hex(),
           "device_id": rng.getrandbits(48), "cred_form": rng.choice(["hex", "bytes"]),
           "backpressure": rng.random() < 0.2}
    if rng.random() < 0.15:
        # the host lives in a zone whose daylight-saving time ends (or starts) during the history
        back = rng.random() < 0.7
        cfg["tz"] = {"switch_at": rng.choice([600.0, 3600.0 * 3, 3600.0 * 11, 3600.0 * 12.5, 3600.0 * 20]),
                     "before": 7200 if back else 3600, "after": 3600 if back else 7200}
    if rng.random() < 0.15:
        # another V3 (or V2) device with its own key and client object lives in the same process
        cfg["bystander"] = {"version": rng.choice([3, 3, 2]), "period": rng.choice([0.11, 0.7, 1.3]), "max_rounds": 25}
    return {"config": cfg, "ops": ops}


def space(tier):
    sp = Space(ID)

    def long_fn(j, rng):
        n = (5000 if j == 0 else 4200) if tier == "quick" else (70000 if j == 0 else 9000)
        return {"config": {"version": 3, "token": rand_bytes(rng, 64).hex(), "key": rand_bytes(rng, 32).hex()},
                "ops": [], "long_session": n}
    def long_proto(j, rng):
        return {"config": {"version": 3, "token": rand_bytes(rng, 64).hex(), "key": rand_bytes(rng, 32).hex()},
                "ops": [], "long_proto": 66_000 + 4096 * j}
    sp.add("long_session_protocol_level", 2 if tier == "quick" else 6, long_proto, wall_limit=600)
    sp.add("long_session", 2 if tier == "quick" else 4, long_fn, wall_limit=600)      # first: the longest runs start first
    sp.add("histories", 12000 if tier == "quick" else 600_000, gen_plan)
    return sp


def simplify(plan):
    import json
    for oi, op in enumerate(plan.get("ops", [])):
        for k in ("cancel", "cred"):
            if k in op:
                c = json.loads(json.dumps(plan))
                c["ops"][oi].pop(k)
                yield c
