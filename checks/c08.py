"""C08 - retry, timeout and recovery contract of an exchange."""
import asyncio

from .common import REAL_BASE, STUB_BASE, Result, Space, rand_bytes, SimDeadlock, SimStepLimit, TICK
from .session import Session, compare_view

ID = "C08"
LEVEL = "exploration"
RULE = ("A case is (protocol version, retry budget r in 1..4 via LAN.send or the device API (r=3), an optional first "
        "fault exchange and a second fault exchange, then a fault-free refresh started immediately or after idle time). "
        "A fault exchange is either 'timing' (per transmission: answered after a delay from {0.05, 1, 2-e, 2, 2+e, 2.5, "
        "4-e, 4+e, 5.9} or never) or one of {all dropped, V3 error packet, garbage (random / marker-bearing partial / "
        "truncated valid packet), FIN or RST while waiting, FIN while idle, connect refused, connect hang, cancellation "
        "at a drawn instant}, at the data phase or (V3) the handshake phase. Distinct = distinct plan; non-trivial = at "
        "least one fault or a reply delay >= 1 s actually took effect."
        " Later additions: parts 'timing_key_lifetime_straddle' (the 12 h key lifetime ends inside the retry windows) and 'two_exchanges_overlap_on_one_object' (every write attributed to its exchange by its instant); plain-OSError connect failures; fault 'dup_rejected'; an idle hang-up with unread reports, after which the exchange must succeed.")
ASSUMPTIONS = [
    "a reply that arrives at exactly the instant a read timeout fires may be taken or missed (both accepted)",
    "the reference device accepts data under any session key it issued on the connection (lenient) so that delayed "
    "handshake replies cannot make the *protocol* fail",
    "TCP is FIFO per connection: a prompt reply queued behind a delayed one arrives after it; the recovery time bound "
    "starts when the last in-flight delivery of earlier exchanges has drained",
    "recovery bound: connect + handshake + 1 s post-authentication sleep + retry windows <= 12 virtual seconds",
]
COMPONENTS = {"real": REAL_BASE + ["LAN.send/_connect/_disconnect/authenticate retry loops, Device._send_command, "
                                   "AirConditioner.refresh"], "stub": STUB_BASE}

E = 1.0 / 1024
DELAYS = [0.05, 1.0, 2 - E, 2.0, 2 + E, 2.5, 4 - E, 4 + E, 5.9, None]
FAULTS_DATA = ["timing", "drop_all", "garbage_random", "garbage_marker", "garbage_trunc", "fin_wait", "rst_wait",
               "fin_idle", "refuse", "hang", "cancel", "accept_close", "accept_reset", "slow_connect"]
FAULTS_V3 = ["error_packet", "hs_drop_all", "hs_drop_some", "hs_error", "hs_garbage_marker", "hs_garbage_random",
             "hs_close", "hs_late", "dup_rejected"]


def run_pair(plan):
    """Two exchanges overlap on one object while some transmissions go unanswered.  Every write is attributed
    to its exchange by its instant (an exchange writes at its start and then every 2 s): it must carry that
    exchange's frame, an exchange never writes more than 3 times, and one that gave up used all 3."""
    s = Session(plan, max_iterations=6000)
    w = s.world
    dev = s.dev
    res = Result()
    delta = plan["delta"]

    async def main(w):
        ac = s.make_clients()[0]
        if s.version == 3:
            o = await s.do({"op": "auth"})
            if o.kind != "ok":
                res.fail(f"genuine handshake raised {o.exc_type}", repr(o.exc))
                return
        o = await s.do({"op": "refresh"})
        if o.kind != "ok" or not ac.online:
            res.fail("plain refresh failed", repr(o))
            return
        await asyncio.sleep(0.5)
        dev.script = [({} if a else {"drop": True}) for a in plan["answers"]]
        n0 = len(dev.log)
        from simkit.world import capture
        t_a = w.loop.time()

        async def second():
            await asyncio.sleep(delta)
            if plan["second"] == "apply":
                ac.target_temperature = 21.5
                return await capture(w, ac.apply())
            if plan["second"] == "refresh":
                return await capture(w, ac.refresh())
            return await capture(w, ac._lan.send(w.ns.command.GetCapabilitiesCommand().tobytes(), retries=3))
        oa, ob = await asyncio.gather(capture(w, ac.refresh()), second())
        dev.script = []
        w.fire("two_exchanges_overlap_on_one_object")
        for o in (oa, ob):
            if o.kind != "ok" and not isinstance(o.exc, (TimeoutError, asyncio.TimeoutError, w.ns.lan.ProtocolError)):
                # observation, not a verdict (DESIGN 14.4): when one exchange exhausts its retries and drops the
                # connection, the other one's next step fails with AttributeError on the pinned tree; overlapping
                # use of one object is outside C08's quantifier, only the wire-level contract is judged here
                w.probe("overlapping_exchange_raised_" + str(o.exc_type))
        tx = [e for e in dev.log[n0:] if e["kind"] == "v2_req"]
        t_b = t_a + delta
        by = {"a": [], "b": []}
        for e in tx:
            ka = (e["t"] - t_a) / 2.0
            kb = (e["t"] - t_b) / 2.0
            is_a = abs(ka - round(ka)) < 1e-6 and 0 <= round(ka) <= 2
            is_b = abs(kb - round(kb)) < 1e-6 and 0 <= round(kb) <= 2
            if is_a == is_b:
                w.probe("write_not_attributable")
                return            # (connect latency after a failed exchange etc.): nothing is asserted
            by["a" if is_a else "b"].append(e)
        for name, lst in by.items():
            if len(lst) > 3:
                res.fail("request transmitted more than `retries` times", f"exchange {name}: {len(lst)}")
                return
            if len({e["frame"] for e in lst}) > 1:
                res.fail("retransmitted frame differs from the original",
                         f"exchange {name} wrote {[e['frame'].hex()[20:26] for e in lst]}")
                return
        if by["a"] and by["b"] and by["a"][0]["frame"] == by["b"][0]["frame"] and plan["second"] != "refresh":
            res.fail("retransmitted frame differs from the original", "both exchanges wrote the same frame")
            return
        # giving up is only allowed after all three transmissions
        for name, o, lst in (("a", oa, by["a"]), ("b", ob, by["b"])):
            gave_up = (o.kind != "ok") if (name == "b" and plan["second"] == "send") else False
            if gave_up and isinstance(o.exc, (TimeoutError, asyncio.TimeoutError)) and len(lst) < 3:
                res.fail("gave up before using all retries", f"exchange {name}: {len(lst)} of 3")
                return
        if not ac.online:
            # both device-level exchanges are over; at least one response was delivered to this object iff the
            # device answered something
            answered = [e for e in dev.log[n0:] if e["kind"] == "response"]
            total = len(tx)
            if len(by["a"]) < 3 and len(by["b"]) < 3 and total and not answered:
                res.fail("gave up before using all retries", f"a={len(by['a'])} b={len(by['b'])}")
                return
        # afterwards a plain exchange works
        await asyncio.sleep(6.5)
        o = await s.do({"op": "refresh"})
        if o.kind != "ok" or not ac.online:
            await asyncio.sleep(0.5)
            o = await s.do({"op": "refresh"})
        if o.kind != "ok" or not ac.online:
            res.fail("recovery: fault-free exchange after overlapping exchanges failed (offline)", repr(o))
            return
        bad = compare_view(ac, dev.state, dev.state_len)
        if bad:
            res.fail("recovery: wrong state after recovery: " + bad[0][0], repr(bad))

    try:
        w.run(main)
    except (SimDeadlock, SimStepLimit) as e:
        res.fail(f"liveness: {type(e).__name__}", str(e))
    res.take(w)
    res.add_fired(dev.fired)
    res.key = res.digest
    res.nontrivial = not all(plan["answers"][:4])
    return res


def run(plan):
    if plan.get("mode") == "pair":
        return run_pair(plan)
    s = Session(plan, max_iterations=3000 + 12 * plan.get("presends", 0))
    w = s.world
    dev = s.dev
    res = Result()
    version = s.version
    effect = {"n": 0}

    def exchange_events(n0):
        return [e for e in dev.log[n0:]]

    def online_after():
        return bool(s.clients and s.clients[0].online)

    def check_retry_contract(label, evs, r, o, timing_only, t_start):
        """Invariants from the device-side log of one exchange."""
        lanmod = w.ns.lan
        tx = [e for e in evs if e["kind"] == "v2_req"]
        if not tx:
            if o.kind == "ok" and (o.value is None or len(o.value) > 0) and (o.value is not None or online_after()):
                res.fail(f"{label}: exchange reported success but the request was never transmitted", "")
            return
        cids = {e["cid"] for e in tx}
        if len(cids) != 1:
            res.fail(f"{label}: one exchange transmitted on several connections", repr(cids))
            return
        m = len(tx)
        if m > r:
            res.fail(f"{label}: request transmitted more than `retries` times", f"{m} > {r}")
            return
        T0 = tx[0]["t"]
        for k, e in enumerate(tx):
            if abs(e["t"] - (T0 + 2.0 * k)) > 1e-9:
                res.fail(f"{label}: retransmission not at t0+2k", f"k={k} t={e['t'] - T0}")
                return
        frames = {e["frame"] for e in tx}
        if len(frames) != 1:
            res.fail(f"{label}: retransmitted frame differs from the original", "")
            return
        conn = w.net.conns[tx[0]["cid"]]
        # earliest instant after T0 at which a complete well-formed response packet had been delivered
        dstar = None
        for (a, b) in conn.state.get("good_spans", []):
            for (t, start, end) in conn.deliveries:
                if end >= b:
                    if t > T0 + 1e-12 and (dstar is None or t < dstar):
                        dstar = t
                    break
        if dstar is not None and not conn.state.get("desync"):
            late = [e for e in tx if e["t"] > dstar + 1e-9]
            if late:
                res.fail(f"{label}: retransmitted after a response had arrived", f"response at {dstar - T0}, tx at {late[0]['t'] - T0}")
                return
        if not timing_only:
            return
        deadline = T0 + 2.0 * r
        PE = lanmod.ProtocolError
        if dstar is not None and dstar < deadline - 1e-9:
            if o.kind != "ok":
                res.fail(f"{label}: response arrived inside a read window but the exchange failed with {o.exc_type}",
                         f"arrived {dstar - T0} of {2.0 * r}")
                return
            k_arr = int((dstar - T0) / 2.0 + 1e-12)
            tie = abs((dstar - T0) - 2.0 * round((dstar - T0) / 2.0)) < 1e-9 and dstar > T0
            ok_m = {k_arr + 1} | ({k_arr, k_arr + 1} if tie else set())
            if m not in ok_m:
                res.fail(f"{label}: wrong number of transmissions", f"{m}, response arrived at {dstar - T0}")
                return
            if m >= 2:
                w.probe(f"response_in_window_{m}")
            if tie:
                w.probe("reply_delivered_in_the_same_tick_as_the_timeout")
        elif dstar is None or dstar > deadline + 1e-9:
            if o.kind == "ok":
                res.fail(f"{label}: exchange succeeded although no response arrived inside the read windows", "")
                return
            if not isinstance(o.exc, (TimeoutError, asyncio.TimeoutError)):
                res.fail(f"{label}: exhausted retries raised {o.exc_type} instead of TimeoutError", repr(o.exc))
                return
            if m != r:
                res.fail(f"{label}: gave up before using all retries", f"{m} of {r}")
                return
            w.probe("retries_exhausted")
        else:
            w.probe("reply_at_exactly_the_final_deadline")

    async def main(w):
        ac = s.make_clients()[0]
        lanmod = w.ns.lan
        PE = lanmod.ProtocolError
        if version == 3:
            o = await s.do({"op": "auth"})
            if o.kind != "ok":
                res.fail(f"genuine handshake raised {o.exc_type}", repr(o.exc))
                return
        frame = w.ns.command.GetStateCommand().tobytes().hex()
        last_failed = [True]
        prior_trouble = [False]
        if plan.get("lifetime") is not None:
            ac.set_max_connection_lifetime(plan["lifetime"])
        for i in range(plan.get("presends", 0)):
            # a long-lived connection: many plain exchanges before the fault (packet counter near its rollover)
            try:
                await ac._lan.send(bytes.fromhex(frame), retries=1)
            except Exception as e:
                res.fail(f"plain exchange {i} raised {type(e).__name__}", repr(e))
                return
        for fx in plan["faults"]:
            kind = fx["kind"]
            r = fx.get("r", 3)
            api = fx.get("api", "send")
            if fx.get("pre_burst"):
                await s.do({"op": "dev_burst", "n": fx["pre_burst"], "d": 0.05})
            if fx.get("pre_close"):
                await s.do({"op": "dev_close", "rst": fx.get("pre_rst", False)})
            if fx.get("expiry_in") is not None and version == 3:
                # the 12 h key lifetime ends inside this exchange's retry windows: the session was valid when the
                # request was first written, and the device keeps answering under it
                hs = [e for e in dev.log if e["kind"] == "hs_reply" and e.get("genuine")]
                if hs:
                    await asyncio.sleep(max(0.0, hs[-1]["t"] + 12 * 3600 - fx["expiry_in"] - w.loop.time()))
                    w.fire("key_lifetime_ends_inside_the_retry_windows")
            op = {"op": "send", "frame": frame, "retries": r} if api == "send" else {"op": "refresh"}
            if api != "send":
                r = 3
            for k in ("net", "hs", "conn", "cancel"):
                if k in fx:
                    op[k] = fx[k]
            n0 = len(dev.log)
            t_start = w.loop.time()
            o = await s.do(op)
            evs = exchange_events(n0)
            last_failed[0] = (o.kind != "ok") if api == "send" else (o.kind != "ok" or not ac.online)
            # containment of outcomes
            if api == "send":
                if not (o.kind in ("ok", "cancelled") or isinstance(o.exc, (PE, TimeoutError, asyncio.TimeoutError))):
                    res.fail(f"fault exchange ({kind}) raised {o.exc_type}", repr(o.exc))
                    return
            else:
                if o.kind not in ("ok", "cancelled"):
                    res.fail(f"refresh under fault ({kind}) raised {o.exc_type}", repr(o.exc))
                    return
            if o.kind != "cancelled" and "cancel" not in fx:
                check_retry_contract(kind, evs, r, o, kind in ("timing", "drop_all") and api == "send", t_start)
                if not res.ok:
                    return
                slow_ok = kind == "slow_connect" and fx.get("conn") and fx["conn"][0][1] < 4.9 and fx.get("net")
                if (kind in ("timing", "drop_all") or slow_ok) and api == "refresh":
                    # device-level: no response -> offline, response -> online
                    tx = [e for e in evs if e["kind"] == "v2_req"]
                    if tx:
                        conn = w.net.conns[tx[0]["cid"]]
                        dels = [d for d in conn.deliveries if d[0] > tx[0]["t"]]
                        if not dels and ac.online:
                            res.fail("refresh reports online although no response arrived", "")
                            return
                        if not dels and len(tx) != 3:
                            res.fail("refresh gave up before using all retries", f"{len(tx)}")
                            return
                        # a complete response delivered strictly inside one of the three read windows: online
                        T0 = tx[0]["t"]
                        inside = None
                        for (a, b) in conn.state.get("good_spans", []):
                            for (t, start, end) in conn.deliveries:
                                if end >= b:
                                    if t > T0 + 1e-9 and (inside is None or t < inside):
                                        inside = t
                                    break
                        if inside is not None and not conn.state.get("desync"):
                            off = inside - T0
                            tie = abs(off - 2.0 * round(off / 2.0)) < 1e-6
                            if off < 6.0 - 1e-6 and not tie and not ac.online:
                                res.fail("refresh reports offline although a response arrived inside a read window",
                                         f"response {off:.3f} s after the first transmission, {len(tx)} transmissions")
                                return
            if kind == "fin_idle" and set(fx) <= {"kind", "r", "api", "pre_close", "pre_rst", "pre_burst", "idle"}:
                # the unit hung up while the connection was idle (with or without unread reports in the queue): no
                # exchange has failed so far, and the unit answers promptly on a new connection
                failed = (o.kind != "ok") if api == "send" else (o.kind != "ok" or not ac.online)
                if failed and not prior_trouble[0]:
                    res.fail("exchange after the unit closed an idle connection failed",
                             f"{o!r}; device saw {[e['kind'] for e in evs][:8]}")
                    return
            prior_trouble[0] = True
            # handshake retry contract
            hs = [e for e in evs if e["kind"] == "hs_req"]
            by_conn = {}
            for e in hs:
                by_conn.setdefault(e["cid"], []).append(e)
            for cid, lst in by_conn.items():
                if len(lst) > 3:
                    res.fail("more than 3 handshake requests in one authentication", f"{len(lst)}")
                    return
            if fx.get("idle"):
                await asyncio.sleep(fx["idle"])
        if not res.ok:
            return
        # ---- recovery: a fault-free exchange with a promptly responding device
        await asyncio.sleep(plan.get("settle", 0))
        # the recovery exchange must itself be fault-free: hostile bytes / closes still in flight from the
        # fault exchanges are allowed to land first (honest late responses may still be in flight)
        hostile = max([c.hostile_until for c in w.net.conns if not c.client_closed] + [0.0])
        if hostile >= w.loop.time():
            await asyncio.sleep(hostile - w.loop.time() + 0.01)
            w.probe("waited_for_in_flight_hostile_events")
        pending = max([c._last_sched for c in w.net.conns if c.open] + [w.loop.time()])
        t0 = w.loop.time()
        n0 = len(dev.log)
        o = await s.do({"op": "refresh"})
        t1 = w.loop.time()
        if o.kind != "ok":
            res.fail(f"recovery: refresh raised {o.exc_type}", repr(o.exc))
            return
        only_benign = all(f["kind"] in ("timing", "drop_all", "dup_rejected") for f in plan["faults"])
        if not ac.online and not last_failed[0] and not only_benign:
            # the preceding exchange had succeeded (e.g. on a stale response) and hostile bytes arrived after
            # it: this refresh is then itself the failed exchange, and the *next* one must succeed
            w.probe("recovery_exchange_was_the_failed_one")
            n0 = len(dev.log)
            t0 = w.loop.time()
            o = await s.do({"op": "refresh"})
            t1 = w.loop.time()
            if o.kind != "ok":
                res.fail(f"recovery: refresh raised {o.exc_type}", repr(o.exc))
                return
        if not ac.online:
            kinds = [e["kind"] for e in dev.log[n0:]]
            res.fail("recovery: fault-free exchange after " + "+".join(f["kind"] for f in plan["faults"]) + " failed (offline)",
                     f"device saw {kinds[:12]}")
            return
        bad = compare_view(ac, dev.state, dev.state_len)
        if bad:
            res.fail("recovery: wrong state after recovery: " + bad[0][0], repr(bad))
            return
        if t1 - max(t0, pending) > 12.0:
            res.fail("recovery: took longer than the bound", f"{t1 - max(t0, pending)} s")
            return
        evs = dev.log[n0:]
        check_retry_contract("recovery", evs, 3, o, False, t0)
        # nothing is left behind: at most one connection of this object is still open
        await asyncio.sleep(6.0)
        still_open = [c for c in w.net.conns if c.server is dev and not c.client_closed and not c.peer_closed]
        if len(still_open) > 1:
            res.fail("recovery: connections opened by earlier (failed) attempts were never closed",
                     f"{len(still_open)} connections still open: cids {[c.cid for c in still_open]}")
            return
        if version == 3:
            # data on a connection only after a handshake on that connection
            for cid in {e["cid"] for e in evs if e["kind"] == "enc_req"}:
                if not any(e["kind"] == "hs_reply" and e["genuine"] and e["cid"] == cid for e in dev.log):
                    res.fail("recovery: encrypted data on a connection without a handshake", f"cid {cid}")
                    return

    try:
        w.run(main)
    except (SimDeadlock, SimStepLimit) as e:
        res.fail(f"liveness: {type(e).__name__}", str(e))
    res.take(w)
    res.add_fired(dev.fired)
    for k, v in w.net.stats.items():
        if k.startswith("connect_"):
            res.fired[k] = res.fired.get(k, 0) + v
    res.key = res.digest
    res.nontrivial = bool(res.fired)
    return res


# ---------------------------------------------------------------------------------------------
def gen_fault(rng, version, kind=None, first=True):
    kinds = FAULTS_DATA + (FAULTS_V3 if version == 3 else [])
    kind = kind or rng.choice(kinds)
    r = rng.randint(1, 4)
    fx = {"kind": kind, "r": r, "api": rng.choice(["send", "send", "refresh"])}
    n = r if fx["api"] == "send" else 3
    if kind == "timing":
        net = []
        for _ in range(n):
            d = rng.choice(DELAYS)
            net.append({"drop": True} if d is None else {"lat": d})
        fx["net"] = net
    elif kind == "drop_all":
        fx["net"] = [{"drop": True}] * n
    elif kind == "error_packet":
        fx["net"] = [{"error": True}]
    elif kind == "dup_rejected":
        # the answer to the first transmission is late; the unit rejects the retransmission (a duplicate to it) with
        # an ERROR packet that arrives after the exchange has already ended well
        fx["r"] = max(fx["r"], 2)
        fx["net"] = [{"lat": rng.choice([2.2, 2.5, 3.0])}, {"error": True, "lat": rng.choice([0.8, 1.2, 1.5])}]
    elif kind == "garbage_random":
        fx["net"] = [{"raw": rand_bytes(rng, rng.choice([1, 5, 30, 100])).hex().replace("8370", "8371").replace("5a5a", "5a5b")}] * n
    elif kind == "garbage_marker":
        hdr = "8370" if version == 3 else "5a5a"
        fx["net"] = [{"raw": hdr + rng.choice(["fff0", "0040", "0100", "2000"]) + rand_bytes(rng, rng.choice([0, 2, 20])).hex()}] + [{}] * (n - 1)
        if rng.random() < 0.5:
            fx["net"] = [fx["net"][0]] * n
    elif kind == "garbage_trunc":
        fx["net"] = [{"mutate": {"kind": "trunc", "len": rng.randrange(1, 150)}}] + [{}] * (n - 1)
    elif kind in ("fin_wait", "rst_wait"):
        fx["net"] = [{"close": "before", "rst": kind == "rst_wait", "lat": rng.choice([E, 0.5, 1.5])}]
    elif kind == "fin_idle":
        fx["pre_close"] = True
        fx["pre_rst"] = rng.random() < 0.3
        if rng.random() < 0.4:
            fx["pre_burst"] = rng.choice([1, 2, 5])     # unread status reports are waiting when the unit hangs up
    elif kind == "refuse":
        fx["pre_close"] = True
        fx["conn"] = [[rng.choice(["refuse", "refuse", "oserror:113", "oserror:101", "oserror:24", "oserror:105", "oserror:99"]),
                       rng.choice([E, 0.3])]]
    elif kind == "hang":
        fx["pre_close"] = True
        fx["conn"] = [["hang", 0]]
    elif kind == "slow_connect":
        # the connection is established, but slowly: just inside the 5 s connect timeout, or after it has expired
        fx["pre_close"] = True
        fx["conn"] = [["accept", rng.choice([0.5, 2.5, 4.5, 4.99, 5.5, 6.0, 9.0])]]
        if rng.random() < 0.6:
            n = 3 if fx["api"] != "send" else fx["r"]
            fx["net"] = [rng.choice([{"drop": True}, {"drop": True}, {"lat": 1.0}, {"lat": 1.9}, {}]) for _ in range(n)]
    elif kind == "accept_close":
        fx["pre_close"] = True
        fx["conn"] = [["accept_close", E]]
    elif kind == "accept_reset":
        # the peer resets the connection the instant it is established (no peer name available any more)
        fx["pre_close"] = True
        fx["conn"] = [["accept_reset", E]]
    elif kind == "cancel":
        fx["cancel"] = rng.choice([E / 2, E, 2 * E, 0.01, 0.5, 1.0 + E, 1.5, 2.0, 2.5, 4.5])
        if rng.random() < 0.6:
            fx["pre_close"] = True          # so that connect / handshake / post-auth sleep can be hit
        if rng.random() < 0.5:
            fx["net"] = [{"drop": True}] * n
        if version == 3 and rng.random() < 0.4:
            fx["hs"] = [{"drop": True}] * 3
        if rng.random() < 0.2:
            fx["conn"] = [["hang", 0]]
    elif kind.startswith("hs_"):
        fx["pre_close"] = True
        if kind == "hs_drop_all":
            fx["hs"] = [{"drop": True}] * 3
        elif kind == "hs_drop_some":
            fx["hs"] = [{"drop": True}] * rng.randint(1, 2)
        elif kind == "hs_error":
            fx["hs"] = [{"error": True}]
        elif kind == "hs_garbage_marker":
            fx["hs"] = [{"raw": "8370" + rng.choice(["fff0", "0040", "0100"]) + rand_bytes(rng, rng.choice([0, 2, 20])).hex()}]
            if rng.random() < 0.5:
                fx["hs"] = fx["hs"] * 3
        elif kind == "hs_garbage_random":
            fx["hs"] = [{"raw": rand_bytes(rng, rng.choice([1, 7, 64])).hex().replace("8370", "8371")}] * rng.randint(1, 3)
        elif kind == "hs_close":
            fx["hs"] = [{"close": True, "rst": rng.random() < 0.5}]
        elif kind == "hs_late":
            fx["hs"] = [{"lat": rng.choice([1.0, 2 - E, 2.0, 2 + E, 2.5, 4 + E, 5.9])} for _ in range(rng.randint(1, 3))]
    if rng.random() < 0.4:
        fx["idle"] = rng.choice([0.01, 0.5, 3.0, 7.0])
    if kind == "dup_rejected":
        fx["idle"] = rng.choice([3.0, 7.0])       # the late ERROR packet has arrived before anything else is tried
    return fx


def gen_plan(j, rng, kinds=None):
    version = rng.choice([2, 3])
    faults = []
    if kinds:
        version = 3 if any(k in FAULTS_V3 for k in kinds) else version
        faults = [gen_fault(rng, version, k) for k in kinds]
    else:
        for _ in range(rng.choice([1, 1, 2])):
            faults.append(gen_fault(rng, version))
    p = {"config": {"version": version, "token": rand_bytes(rng, 64).hex(), "key": rand_bytes(rng, 32).hex(),
                    "device_id": rng.getrandbits(48)},
         "faults": faults, "settle": rng.choice([0, 0, 0.01, 8.0])}
    if rng.random() < 0.25:
        p["lifetime"] = rng.choice([2, 5, 30])
    return p


def space(tier):
    sp = Space(ID)

    def rollover(j, rng):
        # the retry contract when the V3 packet counter rolls over exactly at the retransmitted request
        p = gen_plan(j, rng, ["timing"])
        p["config"]["version"] = 3
        p["presends"] = 4090 + (j % 8)
        p["faults"][0].update({"api": "send", "r": 3, "net": [{"drop": True}, {}, {}]})
        p.pop("lifetime", None)
        return p
    sp.add("rollover_retry", 8 if tier == "quick" else 64, rollover, wall_limit=600)
    sp.add("fault_free", 200 if tier == "quick" else 5000,
           lambda j, rng: dict(gen_plan(j, rng), faults=[]))

    def timing(j, rng):
        p = gen_plan(j, rng, ["timing"])
        p["faults"][0]["api"] = "send" if j % 3 else "refresh"
        return p
    sp.add("timing", 12000 if tier == "quick" else 400_000, timing)

    def timing_expiry(j, rng):
        p = gen_plan(j, rng, ["timing"])
        p["config"]["version"] = 3
        p.pop("lifetime", None)
        fx = p["faults"][0]
        fx["api"] = "send" if j % 3 else "refresh"
        fx["expiry_in"] = rng.choice([0.01, 0.5, 1.0, 2.5, 3.9, 5.0])
        p["settle"] = 8.0        # late replies must have drained: the recovery exchange starts with a handshake
        return p
    sp.add("timing_key_lifetime_straddle", 1500 if tier == "quick" else 60_000, timing_expiry)

    def slow_reconnect(j, rng):
        # the unit hung up; the new connection is slow to come up; then the first transmissions are lost and a late one
        # is answered inside its window (device level: the poll must still find the unit online)
        p = gen_plan(j, rng, ["slow_connect"])
        fx = p["faults"][0]
        fx["api"] = "refresh"
        fx["conn"] = [["accept", [0.5, 1.5, 2.5, 3.5, 4.5, 4.9][j % 6]]]
        pats = [[{"drop": True}, {"drop": True}, {"lat": 1.0}], [{"drop": True}, {"drop": True}, {}], [{"drop": True}, {"lat": 1.9}, {}],
                [{"drop": True}, {"drop": True}, {"lat": 1.9}], [{"lat": 1.9}, {}, {}], [{"drop": True}, {}, {}]]
        fx["net"] = pats[(j // 6) % len(pats)]
        p.pop("lifetime", None)
        return p
    sp.add("slow_reconnect_then_late_answer", 72 if tier == "quick" else 1440, slow_reconnect, exhaustive=True)

    def pair(j, rng):
        version = rng.choice([2, 3])
        delta = rng.choice([0.1, 0.5, 1.0, 1.5, 2.5, 3.3])
        n = rng.randint(2, 6)
        return {"mode": "pair", "config": {"version": version, "token": rand_bytes(rng, 64).hex(),
                                           "key": rand_bytes(rng, 32).hex(), "device_id": rng.getrandbits(48)},
                "delta": delta, "second": rng.choice(["apply", "refresh", "send"]),
                "answers": [rng.random() < 0.5 for _ in range(n)] + [True] * 6}
    sp.add("two_exchanges_overlap_on_one_object", 3000 if tier == "quick" else 200_000, pair)
    allk = FAULTS_DATA + FAULTS_V3
    pairs = [(a, b) for a in allk for b in allk]

    def singles(j, rng):
        return gen_plan(j, rng, [allk[j % len(allk)]])
    sp.add("single_faults", len(allk) * (60 if tier == "quick" else 3000), singles)

    def pairs_fn(j, rng):
        a, b = pairs[j % len(pairs)]
        return gen_plan(j, rng, [a, b])
    sp.add("fault_pairs", len(pairs) * (10 if tier == "quick" else 600), pairs_fn)
    sp.add("random", 10000 if tier == "quick" else 300_000, gen_plan)

    return sp


def simplify(plan):
    import json
    if plan.get("mode") == "pair":
        for i, a in enumerate(plan["answers"]):
            if not a:
                c = json.loads(json.dumps(plan))
                c["answers"][i] = True
                yield c
        return
    for i in range(len(plan["faults"])):
        c = json.loads(json.dumps(plan))
        del c["faults"][i]
        yield c
    for i, fx in enumerate(plan["faults"]):
        for k in ("idle", "pre_close", "cancel", "conn", "hs", "net"):
            if k in fx:
                c = json.loads(json.dumps(plan))
                c["faults"][i].pop(k)
                yield c
        for k in ("net", "hs"):
            if k in fx and len(fx[k]) > 1:
                c = json.loads(json.dumps(plan))
                c["faults"][i][k] = fx[k][:1]
                yield c
    if plan.get("settle"):
        c = json.loads(json.dumps(plan))
        c["settle"] = 0
        yield c
