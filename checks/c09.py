"""C09 - transport containment: peer bytes cause only protocol errors or timeouts."""
import asyncio

from .common import REAL_BASE, STUB_BASE, Result, Space, rand_bytes, SimDeadlock, SimStepLimit
from .session import Session

ID = "C09"
LEVEL = "exploration"
RULE = ("A case is (protocol version, operation under test: LAN.send / LAN.authenticate / AirConditioner.refresh / "
        "AirConditioner.authenticate, protocol phase: handshake reply / data reply, one grammar-aware mutation of "
        "otherwise valid traffic built by the reference codec: every length/size field boundary value with and "
        "without a re-computed signature, ciphertext lengths not a multiple of the block with a valid MD5 sign, "
        "valid sign over random / empty / badly padded ciphertext, every pad nibble with a valid tag, every type "
        "nibble at each phase, valid V3 envelope around a non-V2 payload, truncations, random bytes; optionally "
        "followed by the honest message, optional segmentation). Part 'catalogue' enumerates the mutation "
        "catalogue x phase x operation; 'random' draws parameters. Distinct = distinct plan; non-trivial = a hostile "
        "message was delivered to the client."
        " Later additions: hostile bytes arriving 0.5-3.3 s late, intact packets with surplus bytes behind them ('v2_trailing'), intact signed packets with arbitrary clock / message-id / reserved header fields ('v2_header'), floods of 40-2500 packets.")
ASSUMPTIONS = [
    "allowed outcomes: LAN level = list of frames | ProtocolError (incl. AuthenticationError) | TimeoutError; "
    "device level = refresh returns normally, authenticate raises only AuthenticationError",
    "an exception inside protocol.data_received is contained by asyncio itself (connection closed) and is only "
    "recorded as a probe here",
]
COMPONENTS = {"real": REAL_BASE + ["LAN.send/LAN.authenticate/_read/_Packet.decode/_LanProtocolV3._process_packet; "
                                   "Device._send_command; AirConditioner.refresh/authenticate"], "stub": STUB_BASE}

V2_LEN_VALUES = [0, 1, 5, 6, 15, 16, 17, 31, 32, 39, 40, 41, 55, 56, 57, 71, 72, 73, "len-16", "len-1", "len+1",
                 "len+16", 0xFFFF]


def v2_catalogue():
    cat = []
    for v in V2_LEN_VALUES:
        for resign in (True, False):
            cat.append({"v2": {"kind": "v2_len", "value": v, "resign": resign}})
        cat.append({"v2": {"kind": "v2_len", "value": v, "resign": True, "trail": 7}})
    for n in (0, 1, 15, 16, 17, 31, 32, 33, 48, 100):
        cat.append({"v2": {"kind": "v2_enc", "n": n}})
    for blocks in (1, 2):
        for last in (0, 17, 0x20, 0xFF, 2):
            cat.append({"v2": {"kind": "v2_badpad", "blocks": blocks, "last": last}})
    for m in ("5a5b", "aa21", "8370", "0000"):
        cat.append({"v2": {"kind": "v2_marker", "marker": m}})
    cat.append({"v2": {"kind": "v2_type", "mtype": "0000"}})
    for n in (1, 2, 5, 6, 7, 39, 40, 41, 55, 56, 57, 87, 103):
        cat.append({"v2": {"kind": "v2_trunc", "n": n}})
    for n in (1, 5, 6, 40, 56, 200):
        cat.append({"v2": {"kind": "random", "n": n}})
    cat.append({"v2": {"kind": "empty_frame"}})
    # intact packets with header fields that are not what a well-behaved unit sends: impossible calendar times
    # (centiseconds, second, minute, hour, day, month, year%100, year//100), all-ones, odd message ids and tails
    for ts in ("ff" * 8, "0000000000000000", "000000000d0d1814", "0000001800011814", "0000000000011814", "000000001e021814",
               "6400000001011814", "003c000001011814", "0000000001010000", "00000000010163ff", "0000000001000000"):
        cat.append({"v2": {"kind": "v2_header", "ts": ts, "msg_id": ts != "ff" * 8, "tail": False}})
    cat.append({"v2": {"kind": "v2_header"}})
    cat.append({"v2": {"kind": "v2_header", "magic": "2000"}})
    for hx in ("8370", "837000", "83700020", "8370002003", "8370" + "00" * 6, "5a5a", "5a5a0111", "5a", "00", "aa", "aa21ac",
               "ff" * 17, "5a5a01113800" + "00" * 50):
        cat.append({"v2": {"kind": "v2_trailing", "hex": hx}})
    return cat


def v3_catalogue():
    cat = []
    for t in range(16):
        cat.append({"v3": {"kind": "v3_type", "type": t}})
        cat.append({"v3": {"kind": "v3_type", "type": t, "plain": True, "n": 64}})
        cat.append({"v3": {"kind": "v3_type", "type": t, "plain": True, "n": 0}})
    for p in range(16):
        cat.append({"v3": {"kind": "v3_padn", "pad": p}})
    for v in (0, 1, 5, 6, 15, 16, 30, 31, 32, 33, 34, 46, 47, 48, 49, "-17", "-16", "-1", "+1", "+16", 0xFFFF):
        cat.append({"v3": {"kind": "v3_size", "value": v}})
    for n in (2, 3, 17, 18, 19, 33, 34, 35, 50, 66):
        for pad in (0, 5, 15):
            cat.append({"v3": {"kind": "v3_cipher", "n": n, "pad": pad}})
    for v in (0x00, 0x21, 0xFF):
        cat.append({"v3": {"kind": "v3_magic", "value": v}})
    for n in (0, 16, 32, 48):
        for pad in (0, 1, 13, 14, 15):
            for t in (3, 1):
                cat.append({"v3": {"kind": "v3_valid_tag_plain", "n": n, "pad": pad, "type": t}})
    for n in (1, 2, 5, 6, 7, 8, 9, 37, 38, 39, 40, 100):
        cat.append({"v3": {"kind": "v3_trunc", "n": n}})
    for t in (0, 1, 3, 6, 0xF):
        for n in (0, 1, 2, 14, 30, 31, 32, 33, 34):
            cat.append({"v3": {"kind": "v3_short_plain", "type": t, "n": n}})
            cat.append({"v3": {"kind": "v3_short_plain", "type": t, "n": n, "pad": 15}})
    for n in (1, 5, 6, 8, 100):
        cat.append({"v3": {"kind": "random", "n": n}})
        cat.append({"v3": {"kind": "random_marker", "n": n}})
    # valid envelope around a non-V2 payload
    for inner in ("", "5a", "5a5a", "5a5a0111", "5a5a01110600", "5a5a01113800" + "00" * 50, "aa21ac", "83700000"):
        cat.append({"inner": inner})
    # hostile V2 packet inside a valid V3 envelope
    for c in v2_catalogue():
        cat.append(c)
    return cat


V2_CAT = v2_catalogue()
V3_CAT = v3_catalogue()
OPS = ["lan_send", "refresh", "lan_auth", "auth"]


def run(plan):
    s = Session(plan, max_iterations=6000 + 8 * plan.get("directive", {}).get("flood", {}).get("n", 0))
    w = s.world
    dev = s.dev
    res = Result()
    version = plan["config"]["version"]
    opname = plan["target"]
    phase = plan["phase"]
    d = dict(plan["directive"])

    async def main(w):
        ac = s.make_clients()[0]
        lanmod = w.ns.lan
        PE, AE = lanmod.ProtocolError, lanmod.AuthenticationError

        def lan_ok(o):
            return o.kind == "ok" or isinstance(o.exc, (PE, TimeoutError, asyncio.TimeoutError))

        if version == 3 and phase == "data":
            o = await s.do({"op": "lan_auth"})
            if o.kind != "ok":
                res.fail(f"genuine handshake raised {o.exc_type}", repr(o.exc))
                return
        op = {"retries": plan.get("retries", 1)}
        if plan.get("connect_junk") is not None:
            op["conn"] = [["accept_junk", 1 / 1024, plan["connect_junk"]]]
        if phase == "data":
            op["net"] = [dict(d) for _ in range(3)]
        else:
            op["hs"] = [dict(d) for _ in range(3)]
        if opname == "lan_send":
            if version == 3 and phase == "hs":
                ac._lan._token, ac._lan._key = s.token, s.key      # stored credentials -> send() handshakes first
                ac._lan._protocol_version = 3
            op.update({"op": "send", "frame": "aa0bac00000000000003418100ff03"})
            op["frame"] = w.ns.command.GetStateCommand().tobytes().hex()
            o = await s.do(op)
            if not lan_ok(o):
                res.fail(f"LAN.send raised {o.exc_type}", f"{plan['directive']} : {o.exc!r}")
        elif opname == "lan_auth":
            op["op"] = "lan_auth"
            o = await s.do(op)
            if not lan_ok(o):
                res.fail(f"LAN.authenticate raised {o.exc_type}", f"{plan['directive']} : {o.exc!r}")
        elif opname == "auth":
            op["op"] = "auth"
            o = await s.do(op)
            if not (o.kind == "ok" or isinstance(o.exc, AE)):
                res.fail(f"AirConditioner.authenticate raised {o.exc_type}", f"{plan['directive']} : {o.exc!r}")
        elif opname == "refresh":
            if version == 3 and phase == "hs":
                ac._lan._token, ac._lan._key = s.token, s.key
                ac._lan._protocol_version = 3
            op["op"] = "refresh"
            o = await s.do(op)
            if o.kind != "ok":
                res.fail(f"AirConditioner.refresh raised {o.exc_type}", f"{plan['directive']} : {o.exc!r}")
        if not res.ok:
            return
        # the object stays usable: a following honest exchange must not raise anything unexpected either
        o2 = await s.do({"op": "refresh"})
        if o2.kind != "ok":
            res.fail(f"follow-up refresh raised {o2.exc_type}", repr(o2.exc))

    try:
        w.run(main)
    except (SimDeadlock, SimStepLimit) as e:
        res.fail(f"liveness: {type(e).__name__}", str(e))
    res.take(w)
    res.add_fired(dev.fired)
    if w.net.protocol_exceptions:
        res.probes["exception_inside_data_received"] = len(w.net.protocol_exceptions)
    res.key = res.digest
    res.nontrivial = any(k.startswith("byz") or k.startswith("close_after_hs") or k.startswith("flood") or k in ("raw_reply", "hs_raw", "connect_accept_junk")
                         for k in dev.fired)
    return res


def make_plan(version, target, phase, byz, rng, extra=None):
    d = {"byz": byz, "seed": rng.randrange(1 << 30)}
    if extra:
        d.update(extra)
    if rng.random() < 0.3:
        # the hostile bytes arrive late inside the 2 s read window (or just outside it)
        d["lat"] = rng.choice([0.5, 1.0, 1.3, 1.7, 1.999, 2.001, 3.3])
    return {"config": {"version": version, "token": rand_bytes(rng, 64).hex(), "key": rand_bytes(rng, 32).hex(),
                       "device_id": rng.getrandbits(48)},
            "target": target, "phase": phase, "directive": d, "retries": rng.choice([1, 1, 2])}


def space(tier):
    sp = Space(ID)
    combos = []
    for b in V2_CAT:
        for t in ("lan_send", "refresh"):
            combos.append((2, t, "data", b))
    for b in V3_CAT:
        for t in ("lan_send", "refresh"):
            combos.append((3, t, "data", b))
        if "v2" not in b:
            for t in OPS:
                combos.append((3, t, "hs", b))

    def cat(j, rng):
        v, t, ph, b = combos[j % len(combos)]
        extra = {}
        k = j // len(combos)
        if k % 3 == 1:
            extra["then_honest"] = True
        if k % 3 == 2 and v == 3:
            extra["cuts"] = sorted(rng.randrange(1, 200) for _ in range(rng.randint(1, 3)))
        return make_plan(v, t, ph, b, rng, extra)
    sp.add("catalogue", len(combos) * (3 if tier == "quick" else 30), cat, exhaustive=(tier != "quick"))

    def rnd(j, rng):
        v = rng.choice([2, 3])
        if v == 2:
            kind = rng.choice(["v2_len", "v2_enc", "v2_badpad", "v2_trunc", "random", "v2_trailing", "v2_header"])
            if kind == "v2_header":
                b = {"v2": {"kind": kind, "ts": rand_bytes(rng, 8).hex(), "msg_id": rng.random() < 0.5, "tail": rng.random() < 0.5}}
            elif kind == "v2_len":
                b = {"v2": {"kind": kind, "value": rng.choice([rng.randrange(0, 200), rng.randrange(0, 65536)]),
                            "resign": rng.random() < 0.7, "trail": rng.choice([0, 0, 3, 40])}}
            elif kind == "v2_enc":
                b = {"v2": {"kind": kind, "n": rng.randrange(0, 120)}}
            elif kind == "v2_badpad":
                b = {"v2": {"kind": kind, "blocks": rng.randint(1, 4), "last": rng.randrange(256)}}
            elif kind == "v2_trunc":
                b = {"v2": {"kind": kind, "n": rng.randrange(1, 200)}}
            elif kind == "v2_trailing":
                b = {"v2": {"kind": kind, "hex": (rng.choice(["8370", "5a5a", ""]) + rand_bytes(rng, rng.randrange(0, 9)).hex())}}
            else:
                b = {"v2": {"kind": "random", "n": rng.randrange(1, 300)}}
            return make_plan(2, rng.choice(["lan_send", "refresh"]), "data", b, rng,
                             {"then_honest": True} if rng.random() < 0.3 else None)
        phase = rng.choice(["data", "hs"])
        kind = rng.choice(["v3_type", "v3_padn", "v3_size", "v3_cipher", "v3_trunc", "v3_short_plain", "random",
                           "random_marker", "inner", "v2", "v3_valid_tag_plain", "hs_close"])
        if kind == "hs_close":
            p = make_plan(3, rng.choice(OPS), "hs", None, rng)
            p["directive"] = {"close": True, "rst": rng.random() < 0.5}
            return p
        if kind == "v3_valid_tag_plain":
            b = {"v3": {"kind": kind, "n": rng.choice([0, 16, 32, 48, 64]), "pad": rng.randrange(16), "type": rng.choice([3, 3, 1, 6])}}
            return make_plan(3, rng.choice(["lan_send", "refresh"]), "data", b, rng,
                             {"then_honest": True} if rng.random() < 0.3 else None)
        if kind == "v3_type":
            b = {"v3": {"kind": kind, "type": rng.randrange(16), "plain": rng.random() < 0.5, "n": rng.randrange(0, 130)}}
        elif kind == "v3_padn":
            b = {"v3": {"kind": kind, "pad": rng.randrange(16)}}
        elif kind == "v3_size":
            b = {"v3": {"kind": kind, "value": rng.choice([rng.randrange(0, 300), rng.randrange(0, 65536)])}}
        elif kind == "v3_cipher":
            b = {"v3": {"kind": kind, "n": rng.randrange(2, 200), "pad": rng.randrange(16)}}
        elif kind == "v3_trunc":
            b = {"v3": {"kind": kind, "n": rng.randrange(1, 300)}}
        elif kind == "v3_short_plain":
            b = {"v3": {"kind": kind, "type": rng.randrange(16), "n": rng.randrange(0, 80), "pad": rng.randrange(16)}}
        elif kind in ("random", "random_marker"):
            b = {"v3": {"kind": kind, "n": rng.randrange(1, 300)}}
        elif kind == "inner":
            b = {"inner": rand_bytes(rng, rng.choice([0, 1, 2, 5, 6, 39, 40, 56, 57, 72])).hex()}
            if rng.random() < 0.5 and len(b["inner"]) >= 4:
                b["inner"] = "5a5a" + b["inner"][4:]
        else:
            b = dict(rng.choice(V2_CAT))
            phase = "data"
        extra = {}
        if rng.random() < 0.3:
            extra["then_honest"] = True
        if rng.random() < 0.3:
            extra["cuts"] = sorted(rng.randrange(1, 300) for _ in range(rng.randint(1, 4)))
        return make_plan(3, rng.choice(OPS if phase == "hs" else ["lan_send", "refresh"]), phase, b, rng, extra)
    sp.add("random", 25000 if tier == "quick" else 1_000_000, rnd)

    def junk(j, rng):
        """The peer speaks first: hostile bytes right after accept, then an honest or hostile exchange."""
        v = rng.choice([2, 3])
        kind = rng.choice(["random", "marker_partial", "valid_looking", "error_packet", "tiny"])
        if kind == "random":
            data = rand_bytes(rng, rng.choice([1, 5, 6, 40, 200]))
        elif kind == "marker_partial":
            data = (b"\x83\x70" if v == 3 else b"\x5a\x5a") + rand_bytes(rng, rng.choice([0, 1, 2, 4, 30]))
        elif kind == "valid_looking":
            from refmodel import codec as C
            inner = C.v2_encode(rng.getrandbits(48), rand_bytes(rng, rng.choice([0, 5, 24])), magic=b"\x20\x80")
            data = inner if v == 2 else C.v3_encode_plain(0, inner[:64], rng.choice([0, 1, 3, 6, 15]))
        elif kind == "error_packet":
            from refmodel import codec as C
            data = C.v3_encode_plain(0, b"ERROR", 15)
        else:
            data = bytes([rng.choice([0x83, 0x5A, 0x00, 0xAA])])
        p = make_plan(v, rng.choice(["lan_send", "refresh"] if v == 2 else OPS), "data" if v == 2 else rng.choice(["data", "hs"]),
                      None, rng)
        p["directive"] = {} if rng.random() < 0.6 else p["directive"]
        p["directive"].pop("byz", None)
        p["connect_junk"] = data.hex()
        if v == 3 and p["phase"] == "data":
            p["phase"] = "hs"       # the junk must hit the first connection, which the handshake opens
        return p
    sp.add("peer_speaks_first", 3000 if tier == "quick" else 200_000, junk)

    def flood(j, rng):
        """Hundreds to thousands of small well-formed packets ahead of (or instead of) the real reply."""
        n = [40, 300, 1200, 2500][j % 4]
        kind = ["hs_response", "error", "enc_valid", "short_type"][(j // 4) % 4]
        phase = ["data", "hs"][(j // 16) % 2]
        p = make_plan(3, rng.choice(["lan_send", "refresh"] if phase == "data" else OPS), phase, None, rng)
        p["directive"] = {"flood": {"n": n, "kind": kind}, "then_honest": True, "seed": rng.randrange(1 << 20)}
        return p
    sp.add("packet_floods", 32 if tier == "quick" else 640, flood, exhaustive=True)
    return sp
