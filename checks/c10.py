"""C10 - control command encodes exactly the requested state (vendor bit layout)."""
import asyncio
import itertools

from .common import REAL_BASE, STUB_BASE, Result, Space, SimDeadlock, SimStepLimit
from .session import Session, SET_MAP

ID = "C10"
LEVEL = "exploration"
RULE = ("A case is (protocol version, up to 8 full requested states applied in sequence through apply(); each emitted "
        "0x40 body is decoded by the vendor layout on the device side and compared field by field, spare bits must be "
        "at their fixed values, and bodies of distinct states in a run must differ). Parts: 'setpoint_x_mode' = all 62 "
        "half-degree set-points x 6 modes; 'fan_bytes' = all 128; 'flag_combos' = all 192 combinations of turbo, "
        "follow-me, eco, purifier, aux mode, sleep, Fahrenheit; 'humidity' = 0..127; 'small_fields' = swing x freeze x "
        "power x beep; 'random' = seeded full states, also applied while a refresh is in flight, after a refresh of a "
        "reported state, and after a random capability report has been learned. Distinct = distinct requested state tuple; non-trivial = every "
        "case (each compares a full state)."
        " Later additions: units that acknowledge with their previous state, plain ints for enumerated settings, mode 'sparse' (1-3 settings changed since the last apply, optionally next to a property setter, after up to 67 min of idle time), reported states with unmodelled flag bits.")
ASSUMPTIONS = [
    "vendor layout as transcribed in refmodel/acmodel.decode_control (Lua jsonToData lines 3286-3445); alternate "
    "set-point code = T-12 for 13..43 C as the property states; follow-me = body[8] bit 7",
    "injectivity across runs follows from exact decoding (decode is a function of the body); it is additionally "
    "checked pairwise inside each run",
]
COMPONENTS = {"real": REAL_BASE + ["AirConditioner setters + apply -> SetStateCommand.tobytes -> Command/Frame framing"],
              "stub": STUB_BASE}

FIELDS = ["power_state", "operational_mode", "target_temperature", "fan_speed", "swing_mode", "eco", "turbo", "sleep",
          "fahrenheit", "freeze_protection", "follow_me", "purifier", "target_humidity", "aux_mode", "beep"]


def base_state():
    return {"power_state": True, "operational_mode": 2, "target_temperature": 24.0, "fan_speed": 60, "swing_mode": 0,
            "eco": False, "turbo": False, "sleep": False, "fahrenheit": False, "freeze_protection": False,
            "follow_me": False, "purifier": False, "target_humidity": 40, "aux_mode": 0, "beep": False}


def rand_state(rng):
    return {"power_state": rng.random() < 0.5, "operational_mode": rng.randint(1, 6),
            "target_temperature": rng.randint(26, 87) / 2, "fan_speed": rng.randint(0, 127),
            "swing_mode": rng.choice([0, 3, 0xC, 0xF]), "eco": rng.random() < 0.5, "turbo": rng.random() < 0.5,
            "sleep": rng.random() < 0.5, "fahrenheit": rng.random() < 0.5, "freeze_protection": rng.random() < 0.5,
            "follow_me": rng.random() < 0.5, "purifier": rng.random() < 0.5, "target_humidity": rng.randint(0, 127),
            "aux_mode": rng.randint(0, 2), "beep": rng.random() < 0.5}


def run(plan):
    s = Session(plan, max_iterations=6000)
    w = s.world
    dev = s.dev
    res = Result()
    states = plan["states"]

    async def main(w):
        ac = s.make_clients()[0]
        if s.version == 3:
            o = await s.do({"op": "auth"})
            if o.kind != "ok":
                res.fail(f"genuine handshake raised {o.exc_type}", repr(o.exc))
                return
        if plan.get("stale_ack"):
            dev.ack_mode = "old"
        if plan.get("learn_caps") and not plan.get("caps_late"):
            # the capability report is learned first; apply() must still encode what was requested
            o = await s.do({"op": "caps"})
            if o.kind != "ok":
                res.fail(f"get_capabilities raised {o.exc_type}", repr(o.exc))
                return
            w.fire("capabilities_learned_before_apply")
        bodies = {}
        mode = plan.get("mode", "plain")
        prev_full = None
        for si, st in enumerate(states):
            poll = None
            if mode == "after_refresh":
                # the device reports some state first (turbo raised in only one of the two vendor flags); the user
                # then changes a subset of the fields: the command must carry the reported state + the changes
                import random as _r
                rr = _r.Random(repr(sorted(st.items())))
                reported = rand_state(rr)
                for k2, v2 in reported.items():
                    if k2 in SET_MAP:
                        dev.state[SET_MAP[k2]] = v2
                dev.state["aux_heat"], dev.state["indep_aux"] = reported["aux_mode"] == 1, reported["aux_mode"] == 2
                dev.state["fan"] = reported["fan_speed"] & 0x7F
                dev.state["humidity"] = min(reported["target_humidity"], 127)
                dev.state["turbo_report"] = plan.get("turbo_report", "both")
                dev.state["spare"] = {"8": rr.randrange(256) & 0x1B, "9": rr.randrange(256) & 0xC7} if rr.random() < 0.6 else {}
                o = await s.do({"op": "refresh"})
                if o.kind != "ok" or not ac.online:
                    res.fail("refresh before the partial apply failed", repr(o))
                    return
                if plan.get("learn_caps") and plan.get("caps_late") and si == 0:
                    # the first poll came before the capability query: what was read then (a fan speed without a
                    # name, say) is what the object holds when the profile arrives
                    o = await s.do({"op": "caps"})
                    if o.kind != "ok":
                        res.fail(f"get_capabilities raised {o.exc_type}", repr(o.exc))
                        return
                    w.fire("capabilities_learned_after_first_poll")
                keep = [k for k in FIELDS if k != "beep" and rr.random() < 0.6]
                full = dict(reported, beep=st["beep"])
                for k in FIELDS:
                    if k not in keep:
                        full[k] = st[k]
                st = full
                if plan.get("learn_caps") and "fan_speed" in keep:
                    # a profile without custom fan speeds shows a reported in-between speed as a named one (C11's
                    # business); what the user keeps, and therefore requests, is the speed the object shows
                    st["fan_speed"] = int(ac.fan_speed)
                for k in FIELDS:
                    if k == "beep":
                        ac.beep = st[k]
                    elif k not in keep:
                        s.set_attr(ac, k, st[k])
            elif mode == "sparse" and prev_full is not None:
                # only a few settings are touched since the last apply() (possibly together with a property
                # setting), after the object has been idle for a while: the command carries the previous request plus
                # the changes
                import random as _r
                rr = _r.Random(repr(sorted(st.items())) + str(si))
                await asyncio.sleep(rr.choice([0.0, 1.0, 130.0, 4000.0]))
                changed = rr.sample([k for k in FIELDS], rr.randint(1, 3))
                if rr.random() < 0.4:
                    changed = ["aux_mode"]
                full = dict(prev_full)
                for k in changed:
                    full[k] = st[k]
                    if k == "beep":
                        ac.beep = st[k]
                    else:
                        s.set_attr(ac, k, st[k])
                if plan.get("with_property") and rr.random() < 0.7:
                    ac.vertical_swing_angle = w.ns.AC.SwingAngle(rr.choice([1, 25, 50, 75, 100]))
                    w.fire("property_setting_next_to_state_settings")
                st = full
                w.fire("sparse_change_since_last_apply")
            else:
                if mode == "during_refresh":
                    # a poll is in flight on the same object when the user applies new settings
                    dev.script = [{"lat": plan.get("poll_lat", 0.5)}]
                    poll = w.loop.create_task(ac.refresh())
                    await asyncio.sleep(plan.get("poll_lead", 1 / 256))
                    w.fire("apply_while_refresh_in_flight")
                for k in FIELDS:
                    if k == "beep":
                        ac.beep = st[k]
                    elif k == "target_temperature" and st[k] == int(st[k]) and plan.get("int_values"):
                        ac.target_temperature = int(st[k])        # whole degrees given as an int
                    elif k == "fan_speed" and plan.get("int_values") and st[k] not in (20, 40, 60, 80, 100, 102):
                        ac.fan_speed = float(st[k])               # the setter documents int | float
                    elif k in ("aux_mode", "operational_mode", "swing_mode") and plan.get("int_values"):
                        setattr(ac, k, int(st[k]))                # a plain number (restored from JSON / a config file)
                    else:
                        s.set_attr(ac, k, st[k])
            n0 = len(dev.controls)
            nlog = len(dev.log)
            o = await s.do({"op": "apply"})
            if poll is not None:
                try:
                    await poll
                except Exception as e:
                    res.fail(f"refresh running next to apply raised {type(e).__name__}", repr(e))
                    return
                await asyncio.sleep(0.6)
            if o.kind != "ok":
                res.fail(f"apply raised {o.exc_type}", repr(o.exc))
                return
            if len(dev.controls) != n0 + 1:
                res.fail("apply did not put exactly one control command on the wire",
                         f"{len(dev.controls) - n0}; device-side parser: {dev.violations[-1][:2] if dev.violations else None}")
                return
            d = dev.controls[-1]
            exp = {SET_MAP.get(k, k): v for k, v in st.items() if k not in ("aux_mode",)}
            exp["aux_heat"] = st["aux_mode"] == 1
            exp["indep_aux"] = st["aux_mode"] == 2
            exp["temp"] = float(exp["temp"])
            exp["fan"] = st["fan_speed"] & 0x7F
            for k, v in exp.items():
                if d[k] != v:
                    res.fail(f"control command decodes to a different {k}", f"requested {v!r} decoded {d[k]!r} (state {st})")
                    return
            if not d["_client_mobile"]:
                res.fail("control command lacks the app-control source bit", "")
                return
            sp = d["_spurious"]
            if any(sp[k] for k in ("b1", "b8", "b9", "b10", "b18", "b19", "b21", "b22")) or any(sp["zeros"]) or d["_swing_hi"] != 0x30:
                res.fail("control command sets bits outside the requested fields", repr(sp) + f" swing_hi={d['_swing_hi']:#x}")
                return
            req = [e for e in dev.log[nlog:] if e["kind"] == "request" and e["body"][:1] == b"\x40"][-1]
            body = bytes(req["body"])
            if req["ftype"] != 0x02:
                res.fail("control command frame type is not 0x02", str(req["ftype"]))
                return
            if body[4:7] != b"\x7f\x7f\x00":
                res.fail("control command timer bytes differ from 'timers off'", body[4:7].hex())
                return
            prev_full = dict(st)
            key = tuple(sorted(st.items()))
            for k2, b2 in bodies.items():
                if (k2 == key) != (b2 == body):
                    res.fail("distinct requested states produced the same command body (or equal states differ)", f"{k2} / {key}")
                    return
            bodies[key] = body

    try:
        w.run(main)
    except (SimDeadlock, SimStepLimit) as e:
        res.fail(f"liveness: {type(e).__name__}", str(e))
    res.take(w)
    res.key = (plan.get("mode"), plan.get("turbo_report"), bool(plan.get("int_values")), bool(plan.get("stale_ack")), repr(plan["config"].get("caps_pages")), tuple(tuple(sorted(st.items())) for st in states))
    res.nontrivial = True
    return res


def chunks(lst, n):
    return [lst[i:i + n] for i in range(0, len(lst), n)]


def space(tier):
    sp = Space(ID)

    def with_base(rng, **kw):
        st = base_state()
        st.update(kw)
        return st

    def mk(states, j):
        return {"config": {"version": 2 + j % 2}, "states": states}
    sm = [(t / 2, m) for t in range(26, 88) for m in range(1, 7)]
    smc = chunks(sm, 6)

    def f_sm(j, rng):
        ctx = rand_state(rng)
        return mk([dict(ctx, target_temperature=t, operational_mode=m) for t, m in smc[j % len(smc)]], j // len(smc))
    sp.add("setpoint_x_mode", len(smc) * 2, f_sm, exhaustive=True)
    fanc = chunks(list(range(128)), 8)

    def f_fan(j, rng):
        ctx = rand_state(rng)
        return mk([dict(ctx, fan_speed=f) for f in fanc[j % len(fanc)]], j // len(fanc))
    sp.add("fan_bytes", len(fanc) * 2, f_fan, exhaustive=True)
    combos = list(itertools.product([False, True], [False, True], [False, True], [False, True], [0, 1, 2],
                                    [False, True], [False, True]))
    cc = chunks(combos, 8)

    def f_flags(j, rng):
        ctx = rand_state(rng)
        return mk([dict(ctx, turbo=a, follow_me=b, eco=c, purifier=d, aux_mode=e, sleep=f, fahrenheit=g)
                   for a, b, c, d, e, f, g in cc[j % len(cc)]], j // len(cc))
    sp.add("flag_combos", len(cc) * 2, f_flags, exhaustive=True)
    hc = chunks(list(range(128)), 8)

    def f_hum(j, rng):
        ctx = rand_state(rng)
        return mk([dict(ctx, target_humidity=h) for h in hc[j % len(hc)]], j // len(hc))
    sp.add("humidity", len(hc) * 2, f_hum, exhaustive=True)
    small = list(itertools.product([0, 3, 0xC, 0xF], [False, True], [False, True], [False, True]))
    sc = chunks(small, 8)

    def f_small(j, rng):
        ctx = rand_state(rng)
        return mk([dict(ctx, swing_mode=a, freeze_protection=b, power_state=c, beep=d) for a, b, c, d in sc[j % len(sc)]],
                  j // len(sc))
    sp.add("small_fields", len(sc) * 2, f_small, exhaustive=True)

    def f_rand(j, rng):
        p = mk([rand_state(rng) for _ in range(8)], j)
        p["int_values"] = (j % 3 == 0)
        r = j % 4
        if r == 1:
            p["mode"] = "during_refresh"
            p["poll_lat"] = rng.choice([0.05, 0.5, 1.0])
            p["poll_lead"] = rng.choice([1 / 1024, 1 / 256, 0.01])
            p["states"] = p["states"][:4]
        elif r == 2:
            p["mode"] = "after_refresh"
            p["turbo_report"] = rng.choice(["both", "b8", "b10"])
            for st in p["states"]:
                st["target_humidity"] = min(st["target_humidity"], 100)
        if r in (0, 3) and rng.random() < 0.4:
            # the unit acknowledges each command with the state it had before executing it
            p["stale_ack"] = True
        if r == 3 and not p.get("stale_ack"):
            p["mode"] = "sparse"
            if rng.random() < 0.6:
                p["with_property"] = True
                p["config"] = dict(p["config"], caps_pages=[[[[0x0009, "01"], [0x000A, "01"], [0x0210, "01"], [0x0214, "01"]], None]])
                p["learn_caps"] = True
            return p
        if rng.random() < 0.4:
            from .c15 import rand_record
            recs = [rand_record(rng) for _ in range(rng.randint(1, 10))]
            if rng.random() < 0.5:
                recs.append([0x0210, rng.choice(["00", "01", "05", "06", "07"])])      # fan-speed profile
            p["config"] = dict(p["config"], caps_pages=[[recs, None]])
            p["learn_caps"] = True
            if p.get("mode") == "after_refresh" and rng.random() < 0.5:
                p["caps_late"] = True
        return p
    sp.add("random", 3000 if tier == "quick" else 600_000, f_rand)
    return sp
