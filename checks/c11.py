"""C11 - state responses decode to exactly the reported state."""
from .common import REAL_BASE, STUB_BASE, Result, Space, SimDeadlock, SimStepLimit, rand_bytes
from .session import Session
from refmodel import acmodel

ID = "C11"
LEVEL = "exploration"
RULE = ("A case is (protocol version, check style CRC-8/additive, with/without message-id byte, up to 16 raw 0xC0 "
        "report bodies returned by the reference device in raw-report mode, each followed by refresh()). Attributes "
        "are compared with the vendor decode of the body; sensors by the property's relational rule. Parts: "
        "'sensors' = 256 x 10 (byte, tenths) x {indoor,outdoor} x {C,F}; 'setpoint_codes' = 32 alternate x 32 primary "
        "codes; 'flag_bytes' = all 256 values of body bytes 1,2,3,7,8,9,10,13,14,19,21 with the other bytes random; "
        "'lengths' = body lengths 16..40, each seen by one object between longer and shorter reports; 'random' = random "
        "bodies of mixed lengths. One run in eight has the msmart loggers at DEBUG with a formatting handler. Distinct = distinct body; non-trivial = every case."
        " Later additions: wall-clock steps between reports, learned capability profiles, both auxiliary-heat flags on.")
ASSUMPTIONS = [
    "vendor decode = refmodel/acmodel.decode_state (Lua binToModel lines 1664-1836) with the choices of DESIGN 5.3: "
    "fan asserted for report bytes 0..127, swing asserted for the four meaningful nibbles, mode asserted for 1..6, "
    "aux mode asserted unless both the aux and independent-aux bits are set, display off = bits 4-6 of byte 14 all set",
    "optional fields are absent when the parsed body is shorter than 20 (humidity) / 22 (freeze protection) bytes",
    "tenths digits 10..15 are not digits and are only checked for containment (value within one degree)",
]
COMPONENTS = {"real": REAL_BASE + ["AirConditioner.refresh -> Response.construct -> StateResponse._parse -> _update_state"],
              "stub": STUB_BASE}


def expected(body):
    """(dict attr -> expected value or ('skip',)), per DESIGN 5.3."""
    d = acmodel.decode_state(body)
    exp = {
        "power_state": d["power"], "target_temperature": d["temp"], "eco": d["eco"], "turbo": d["turbo"],
        "sleep": d["sleep"], "fahrenheit": d["fahrenheit"], "follow_me": d["follow_me"], "purifier": d["purifier"],
        "filter_alert": d["filter_alert"], "display_on": not d["display_off_vendor"],
        "target_humidity": d["humidity"], "freeze_protection": d["freeze"],
    }
    if 1 <= d["mode"] <= 6:
        exp["operational_mode"] = d["mode"]
    if d["fan"] <= 127:
        exp["fan_speed"] = d["fan"]
    if d["swing"] in (0, 3, 0xC, 0xF):
        exp["swing_mode"] = d["swing"]
    if not (d["indep_aux"] and d["aux_heat"]):
        exp["aux_mode"] = 2 if d["indep_aux"] else (1 if d["aux_heat"] else 0)
    return exp, d


def run(plan):
    s = Session(plan, max_iterations=6000)
    w = s.world
    dev = s.dev
    res = Result()
    dev.check_style = plan.get("check_style", "crc")
    with_msgid = plan.get("with_msgid", True)

    async def main(w):
        ac = s.make_clients()[0]
        if s.version == 3:
            o = await s.do({"op": "auth"})
            if o.kind != "ok":
                res.fail(f"genuine handshake raised {o.exc_type}", repr(o.exc))
                return
        non_custom = bool(plan.get("non_custom_fan"))
        if non_custom:
            # the client first learns that the device has no custom fan speeds (FAN_SPEED_CONTROL = 7)
            dev.caps_pages = [([(0x0210, b"\x07"), (0x0214, b"\x01")], None)]
            o = await s.do({"op": "caps"})
            if o.kind != "ok":
                res.fail(f"get_capabilities raised {o.exc_type}", repr(o.exc))
                return
        if plan.get("caps_profile") and not non_custom:
            # whatever the unit says about its capabilities, reports decode to what they say
            dev.caps_pages = [([(cid, bytes.fromhex(v)) for cid, v in plan["caps_profile"]], None)]
            o = await s.do({"op": "caps"})
            if o.kind != "ok":
                res.fail(f"get_capabilities raised {o.exc_type}", repr(o.exc))
                return
            w.fire("capabilities_learned_before_reports")
        dev.fixed_msg_id = bool(plan.get("fixed_msg_id"))
        bodies = list(plan["bodies"])
        if plan.get("repeat"):
            # the same report again after the user changed attributes locally without applying them
            bodies = [b for hb in bodies for b in (hb, "scribble", hb)]
        steps = {int(k): v for k, v in plan.get("clock_steps", {}).items()}
        for bi, hexbody in enumerate(bodies):
            if bi in steps:
                # the host's wall clock is stepped (NTP correction, manual change): reports are still reports
                w.clock.jump(steps[bi])
                w.fire("wall_clock_stepped_backwards" if steps[bi] < 0 else "wall_clock_stepped_forwards")
            if hexbody == "scribble":
                ac.power_state = not ac.power_state
                ac.target_temperature = 17.0 if ac.target_temperature != 17.0 else 29.5
                ac.operational_mode = w.ns.AC.OperationalMode.HEAT if int(ac.operational_mode) != 4 else w.ns.AC.OperationalMode.COOL
                ac.fan_speed = 77
                ac.eco = not ac.eco
                ac.turbo = not ac.turbo
                ac.swing_mode = w.ns.AC.SwingMode.BOTH if int(ac.swing_mode) != 0xF else w.ns.AC.SwingMode.OFF
                ac.target_humidity = 3
                w.fire("local_changes_without_apply")
                continue
            body = bytes.fromhex(hexbody)
            dev.raw_state = (body, with_msgid)
            parsed_len = len(body) + (1 if with_msgid else 0)
            rop = {"op": "refresh"}
            if plan.get("stale_first") and s.version == 3:
                stale = bytearray(body)
                for i in (1, 2, 3, 7, 8, 9, 10, 11, 12, 13, 19):
                    if i < len(stale):
                        stale[i] ^= 0x5B
                rop["net"] = [{"pre": ["unsol_raw:" + bytes(stale).hex()]}]
            o = await s.do(rop)
            if o.kind != "ok":
                res.fail(f"refresh raised {o.exc_type}", repr(o.exc))
                return
            if not ac.online or not ac.supported:
                res.fail("refresh of a valid state report left the device offline/unsupported", hexbody)
                return
            exp, d = expected(body)
            if non_custom and exp.get("fan_speed") not in (20, 40, 60, 80, 100, 102):
                exp.pop("fan_speed", None)       # unnamed speed on a device without custom speeds: unspecified
            if parsed_len < 20:
                exp["target_humidity"] = None
            elif with_msgid and len(body) < 20:
                exp.pop("target_humidity")           # the message-id byte sits where the field would be
            if parsed_len < 22:
                exp["freeze_protection"] = None
            elif with_msgid and len(body) < 22:
                exp.pop("freeze_protection")
            for new, old in (("eco", "eco_mode"), ("turbo", "turbo_mode"), ("sleep", "sleep_mode"),
                             ("freeze_protection", "freeze_protection_mode")):
                if new in exp:
                    exp[old] = exp[new]          # the older public names read the same value, every time
            for k, v in exp.items():
                got = getattr(ac, k)
                if v is None:
                    ok = got is None
                elif isinstance(v, bool):
                    ok = isinstance(got, bool) and got == v
                elif isinstance(v, float):
                    ok = got is not None and float(got) == v
                else:
                    ok = got is not None and int(got) == v
                if not ok:
                    res.fail(f"{k} differs from the reported value", f"body {hexbody}: got {got!r} expected {v!r}")
                    return
            if d["indep_aux"] and d["aux_heat"] and int(ac.aux_mode) == 0:
                # both auxiliary-heat flags are reported on: which of the two modes is shown is the library's choice,
                # "off" is not what the unit reported
                res.fail("aux_mode differs from the reported value", f"body {hexbody}: both aux flags set, exposed OFF")
                return
            for name, raw, tenths in (("indoor_temperature", d["indoor_raw"], d["indoor_tenths"]),
                                      ("outdoor_temperature", d["outdoor_raw"], d["outdoor_tenths"])):
                msg = acmodel.sensor_ok(getattr(ac, name), raw, tenths, d["fahrenheit"])
                if msg:
                    res.fail(f"{name}: {msg.split(',')[0][:60]}", f"body {hexbody}: {msg}")
                    return

    try:
        w.run(main)
    except (SimDeadlock, SimStepLimit) as e:
        res.fail(f"liveness: {type(e).__name__}", str(e))
    res.take(w)
    res.add_fired(dev.fired)
    res.key = (plan.get("check_style"), with_msgid, bool(plan.get("non_custom_fan")), bool(plan.get("repeat")),
               bool(plan.get("fixed_msg_id")), bool(plan.get("stale_first")), tuple(plan["bodies"]),
               repr(sorted(plan.get("clock_steps", {}).items())), repr(plan.get("caps_profile")))
    res.nontrivial = True
    return res


def rand_body(rng, n=24):
    b = bytearray(rand_bytes(rng, n))
    b[0] = 0xC0
    return b


def space(tier):
    sp = Space(ID)

    def mk(bodies, j, rng, with_msgid=None):
        p = {"config": {"version": 2 + j % 2}, "bodies": [bytes(b).hex() for b in bodies],
             "check_style": ["crc", "sum"][(j // 2) % 2],
             "with_msgid": (rng.random() < 0.7) if with_msgid is None else with_msgid}
        if j % 4 == 2:
            from .c15 import rand_record
            recs = [r for r in (rand_record(rng) for _ in range(rng.randint(1, 8))) if r[0] != 0x0210]
            recs.insert(rng.randrange(len(recs) + 1), [0x0210, "01"])      # custom fan speeds: every speed is reportable
            if rng.random() < 0.5:
                recs.append([0x0225, bytes([rng.randrange(32, 64) for _ in range(6)] + [rng.choice([0, 1])]).hex()])
            p["caps_profile"] = recs
        return p

    # sensors: 256 raw values x tenths 0..9, indoor/outdoor, C/F  -> 16 bodies per run
    def f_sens(j, rng):
        which = j % 2
        unit = (j // 2) % 2
        raw0 = ((j // 4) % 16) * 16
        tenths = (j // 64) % 10
        bodies = []
        for raw in range(raw0, raw0 + 16):
            b = rand_body(rng)
            b[10] = (b[10] & ~0x04 & 0xFF) | (0x04 if unit else 0)
            b[11 + which] = raw
            t_other = rng.randrange(10)
            b[15] = (tenths | (t_other << 4)) if which == 0 else (t_other | (tenths << 4))
            bodies.append(b)
        return mk(bodies, j, rng)
    sp.add("sensors", 2 * 2 * 16 * 10, f_sens, exhaustive=True)

    def f_codes(j, rng):
        alt = j % 32
        k = (j // 32) % 2
        bodies = []
        for prim in range(k * 16, k * 16 + 16):
            b = rand_body(rng)
            b[2] = (b[2] & 0xE0) | prim
            b[13] = (b[13] & 0xE0) | alt
            bodies.append(b)
        return mk(bodies, j, rng)
    sp.add("setpoint_codes", 64, f_codes, exhaustive=True)
    FLAG_BYTES = [1, 2, 3, 7, 8, 9, 10, 13, 14, 19, 21]

    def f_flags(j, rng):
        pos = FLAG_BYTES[j % len(FLAG_BYTES)]
        v0 = ((j // len(FLAG_BYTES)) % 16) * 16
        bodies = []
        for v in range(v0, v0 + 16):
            b = rand_body(rng)
            b[pos] = v
            bodies.append(b)
        return mk(bodies, j, rng)
    sp.add("flag_bytes", len(FLAG_BYTES) * 16 * (1 if tier == "quick" else 8), f_flags, exhaustive=True)

    def f_len(j, rng):
        n = 16 + j % 25
        # the same object sees a long report, then the short one, then a long one again: history must not leak
        other = rng.choice([24, 25, 30, 22, 16, 18])
        return mk([rand_body(rng, other), rand_body(rng, n), rand_body(rng, n), rand_body(rng, other), rand_body(rng, n)],
                  j, rng, with_msgid=bool((j // 25) % 2))
    sp.add("lengths", 25 * 2 * (4 if tier == "quick" else 40), f_len, exhaustive=True)

    def f_rand(j, rng):
        p = mk([rand_body(rng, rng.choice([24, 24, 22, 25, 30, 16, 18, 20])) for _ in range(16)], j, rng)
        p["non_custom_fan"] = (j % 3 == 0)
        p["repeat"] = (j % 4 == 1)
        p["stale_first"] = (j % 4 == 3)        # odd j = V3 (the two frames share one segment)
        p["fixed_msg_id"] = (j % 2 == 1)
        if p["repeat"]:
            p["bodies"] = p["bodies"][:6]
        if j % 5 == 2:
            p["clock_steps"] = {str(rng.randrange(1, len(p["bodies"]))): rng.choice([-1.0, -3600.0, -86400.0 * 30, 7200.0, -0.01])
                                for _ in range(rng.randint(1, 3))}
        return p
    sp.add("random", 2400 if tier == "quick" else 400_000, f_rand)
    return sp
