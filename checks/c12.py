"""C12 - every emitted command is a well-formed, device-acceptable frame; message ids advance by one."""
import asyncio

from . import appfault
from .common import REAL_BASE, STUB_BASE, Result, Space, SimDeadlock, SimStepLimit
from .session import Session

ID = "C12"
LEVEL = "exploration"
RULE = ("A case is (protocol version, start value of the process-global message id, capability profile = a subset of "
        "the property capabilities + energy/humidity, with or without a second capability page, then a fault-free "
        "sequence of 30-260 operations drawn from {get_capabilities, refresh, toggle_display with beep on/off, apply "
        "with random set-state fields, apply after setting each property to each of its values, start_self_clean}). "
        "Every client frame is parsed by the strict reference parser on the device side, classified, and its message "
        "id compared with the previous one. Distinct = distinct plan; non-trivial = at least 30 commands were checked."
        " Later additions: ops 'bad_apply' (a write the encoder refuses), 'race_caps', 'failed_connect_gap' (a command built but never transmitted, then 1-512 commands), part 'commands_built_directly' (Command subclasses' tobytes() with every attribute value, record order and many commands per process).")
ASSUMPTIONS = [
    "strict frame parser = refmodel/codec.frame_parse_strict (0xAA, length byte = len-1, 0xAC, body || id || CRC-8(body||id), "
    "two's-complement checksum); frame type 0x02 for 0x40/0xB0 bodies and 0x03 for queries (toggle display is a query "
    "in the vendor Lua as well)",
    "device acceptance = the reference device's application parser recognises the command as the intended kind "
    "(strict B0/B1 record walk, B5 page selectors, group-data selectors, display-toggle selector)",
    "fault-free: every request is transmitted once, so consecutive requests are consecutive commands",
]
COMPONENTS = {"real": REAL_BASE + ["all Command subclasses via AirConditioner public API; Command._message_id counter"],
              "stub": STUB_BASE}

PROP_CAPS = [(0x0009, b"\x01"), (0x000A, b"\x01"), (0x0039, b"\x01"), (0x0048, b"\x02"), (0x0043, b"\x01"),
             (0x0042, b"\x01"), (0x0018, b"\x01"), (0x00E3, b"\x01")]
PROP_SETTERS = {
    "horizontal_swing_angle": [0, 1, 25, 50, 75, 100], "vertical_swing_angle": [0, 1, 25, 50, 75, 100],
    "rate_select": [100, 50, 75, 1, 20, 40, 60, 80], "breeze_away": [True, False], "breeze_mild": [True, False],
    "breezeless": [True, False], "ieco": [True, False],
}


READ_ONLY_PIDS = (0x0015, 0x004B, 0x021E)       # known to the client, reported by units, not encodable for a write


def run_direct(plan):
    """The second observation point of the property: Command subclasses' tobytes(), used directly (a caller that
    builds its own commands), many in one process, in any order and with every attribute value."""
    from .common import World, codec
    w = World(seed=plan.get("seed", 0), msg_id_start=plan.get("msg_id_start", 0))
    res = Result()
    C = w.ns.command
    n = [0]
    refused = [0]

    def build(spec):
        k = spec[0]
        if k == "state":
            c = C.GetStateCommand()
            c.temperature_type = C.TemperatureType(spec[1])
            return c, 0x03, b"\x41"
        if k == "energy":
            return C.GetEnergyUsageCommand(), 0x03, b"\x41"
        if k == "humidity":
            return C.GetHumidityCommand(), 0x03, b"\x41"
        if k == "caps":
            return C.GetCapabilitiesCommand(bool(spec[1])), 0x03, b"\xb5"
        if k == "toggle":
            c = C.ToggleDisplayCommand()
            c.beep_on = bool(spec[1])
            return c, 0x03, b"\x41"
        if k == "getprops":
            return C.GetPropertiesCommand([C.PropertyId(x) for x in spec[1]]), 0x03, b"\xb1"
        if k == "setprops":
            return C.SetPropertiesCommand({C.PropertyId(pid): v for pid, v in spec[1]}), 0x02, b"\xb0"
        c = C.SetStateCommand()
        for a, v in spec[1].items():
            setattr(c, a, v)
        return c, 0x02, b"\x40"

    async def main(w):
        prev = None
        for spec in plan["commands"]:
            cmd, ftype, first = build(spec)
            try:
                frame = cmd.tobytes()
            except NotImplementedError:
                if spec[0] == "setprops" and any(pid in READ_ONLY_PIDS for pid, _v in spec[1]):
                    # a write of a property this client cannot encode is refused: nothing is emitted
                    w.fire("unencodable_property_write_refused")
                    refused[0] += 1
                    continue
                raise
            n[0] += 1
            try:
                req = codec.frame_parse_strict(frame)
            except codec.RefError as e:
                res.fail("malformed frame: " + str(e), f"{spec}: {bytes(frame).hex()}")
                return
            if req["type"] != ftype or req["body"][:1] != first:
                res.fail(f"frame type {req['type']:#x} for command 0x{req['body'][0]:02x}", f"{spec}")
                return
            body = req["body"]
            from refmodel import acmodel
            try:
                if first == b"\xb1":
                    ids = acmodel.parse_b1_query(body)
                    if sorted(ids) != sorted(spec[1]):
                        res.fail("device-side strict parser rejected a command (b1: ids differ from the requested ones)", f"{spec}")
                        return
                elif first == b"\xb0":
                    recs = acmodel.parse_b0_set(body)
                    if any(pid in READ_ONLY_PIDS for pid, _v in spec[1]):
                        # emitted after all: whatever was emitted has to be a well-formed write of requested ids
                        want = [p for p, _v in spec[1]]
                        it = iter(want)
                        if not all(p in it for p, _v in recs):
                            res.fail("device-side strict parser rejected a command (b0: records differ from the requested ones)",
                                     f"{spec}: {[hex(p) for p, _v in recs]}")
                            return
                    elif [p for p, _v in recs] != [p for p, _v in spec[1]]:
                        res.fail("device-side strict parser rejected a command (b0: records differ from the requested ones)",
                                 f"{spec}: {[hex(p) for p, _v in recs]}")
                        return
                elif first == b"\x40":
                    acmodel.decode_control(body)
            except codec.RefError as e:
                res.fail(f"device-side strict parser rejected a command ({e})", f"{spec}: {bytes(frame).hex()}")
                return
            if prev is not None and req["msg_id"] not in {(prev + 1 + g) & 0xFF for g in range(refused[0] + 1)}:
                res.fail("message id does not advance by one modulo 256", f"{prev} -> {req['msg_id']} at command {n[0]}")
                return
            prev = req["msg_id"]
            refused[0] = 0

    try:
        w.run(main)
    except Exception as e:
        if res.ok:
            raise
    res.take(w)
    res.fired["command_built_directly"] = n[0]
    res.probes["commands_checked"] = n[0]
    res.key = repr(plan["commands"])[:4000]
    res.nontrivial = n[0] >= 10
    return res


def run(plan):
    if plan.get("mode") == "direct":
        return run_direct(plan)
    s = Session(plan, max_iterations=40_000)
    w = s.world
    dev = s.dev
    res = Result()
    counts = {"cmds": 0}
    gaps = [0]          # commands that consumed an id but never reached the wire (refused connect)

    async def main(w):
        ac = s.make_clients()[0]
        if plan["config"].get("backpressure"):
            w.net.backpressure = 1 / 4096
            w.fire("backpressure")
        if s.version == 3:
            o = await s.do({"op": "auth"})
            if o.kind != "ok":
                res.fail(f"genuine handshake raised {o.exc_type}", repr(o.exc))
                return
        for op in plan["ops"]:
            n_ctrl, n_b5, n_pq, n_ps, n_tog = (len(dev.controls), len(getattr(dev, "b5_queries", [])),
                                               len(dev.prop_queries), len(dev.prop_sets), getattr(dev, "toggles", 0))
            kind = op["op"]
            if kind == "setprop":
                s.set_attr(ac, op["attr"], op["value"])
                continue
            if kind == "beep":
                ac.beep = op["value"]
                continue
            if kind == "bad_apply":
                # a write the encoder cannot express is refused (or clamped) - either way the commands that follow
                # continue the id sequence without a gap
                old = ac.fan_speed
                try:
                    ac.fan_speed = op["value"]
                    await ac.apply()
                except Exception:       # noqa: BLE001 - refusing is fine; what it leaves behind is judged
                    w.fire("unencodable_setting_refused")
                try:
                    ac.fan_speed = old
                except Exception:       # noqa: BLE001
                    pass
                if dev.violations:
                    v = dev.violations[0]
                    res.fail(f"device-side strict parser rejected a command ({v[0]}: {v[1]})", bytes(v[2]).hex())
                    return
                continue
            if kind == "failed_connect_gap":
                # a third object's command is built, but its connect is slow and finally refused; meanwhile this
                # object emits `r` polls. The command that never left consumed one id (one gap on the wire); after
                # that every command continues the sequence
                third = w.ns.AC(ip=ac.ip, port=ac.port, device_id=ac.id)
                dev.conn_script = [["refuse", op.get("delay", 3.0)]]
                from simkit.world import capture
                tb = w.loop.create_task(capture(w, third.refresh()))
                await asyncio.sleep(0.01)
                for _ in range(op["r"]):
                    o = await s.do({"op": "refresh"})
                    if o.kind != "ok":
                        res.fail(f"refresh raised {o.exc_type}", repr(o.exc))
                        return
                ob = await tb
                dev.conn_script = []
                if ob.kind != "ok":
                    res.fail(f"refresh with a refused connect raised {ob.exc_type}", repr(ob.exc))
                    return
                if not third.online:
                    gaps[0] += 1
                    w.fire("command_built_but_never_transmitted")
                if s.version == 3:
                    await capture(w, third.authenticate(s.token.hex(), s.key.hex()))
                o = await capture(w, third.refresh())
                if o.kind != "ok":
                    res.fail(f"refresh raised {o.exc_type}", repr(o.exc))
                    return
                continue
            if kind == "caps_notified":
                # the unit answers the capability query with a notification-type frame only (which the library
                # ignores by design): whatever it does next, ids keep advancing by one
                from . import appfault
                appfault.install(dev)
                o = await s.do({"op": "caps", "net": [{"app": {"base": "caps", "edit": [["ftype", 5]], "place": "alone"}}]})
                dev.app_override = None
                if o.kind != "ok":
                    res.fail(f"caps raised {o.exc_type}", repr(o.exc))
                    return
                if dev.violations:
                    v = dev.violations[0]
                    res.fail(f"device-side strict parser rejected a command ({v[0]}: {v[1]})", bytes(v[2]).hex())
                    return
                w.fire("capability_query_answered_by_a_notification_only")
                continue
            if kind == "race_caps":
                # a poll is waiting for its (slow) state reply while the capabilities are queried again and the
                # unit now reports a different set of properties
                dev.caps_pages = [([(cid, bytes.fromhex(v)) for cid, v in recs], add) for recs, add in op["pages"]]
                dev.script = [{"lat": op.get("lat", 0.5)}]
                ra, rb = await asyncio.gather(_cap(w, ac.refresh()), _cap(w, ac.get_capabilities()))
                dev.script = []
                for r in (ra, rb):
                    if r.kind != "ok":
                        res.fail(f"refresh next to get_capabilities raised {r.exc_type}", repr(r.exc))
                        return
                if dev.violations:
                    v = dev.violations[0]
                    res.fail(f"device-side strict parser rejected a command ({v[0]}: {v[1]})", bytes(v[2]).hex())
                    return
                w.fire("refresh_overlaps_capability_query")
                await asyncio.sleep(0.6)
                continue
            if kind == "concurrent":
                # two device objects in one process operate at the same time (they share the id counter)
                other = s.clients[1]
                dev.script = [{"lat": 1 / 512}, {}, {"lat": 1 / 256}, {}, {}, {"lat": 1 / 512}, {}, {}]
                ra, rb = await asyncio.gather(_cap(w, ac.refresh()), _cap(w, other.refresh()))
                dev.script = []
                for r in (ra, rb):
                    if r.kind != "ok":
                        res.fail(f"concurrent refresh raised {r.exc_type}", repr(r.exc))
                        return
                w.fire("two_instances_concurrently")
                continue
            o = await s.do(op)
            if o.kind != "ok":
                res.fail(f"{kind} raised {o.exc_type}", repr(o.exc))
                return
            if dev.violations:
                v = dev.violations[0]
                res.fail(f"device-side strict parser rejected a command ({v[0]}: {v[1]})", bytes(v[2]).hex())
                return
            # device acceptance: the command was recognised as the intended kind
            if kind == "toggle" and getattr(dev, "toggles", 0) != n_tog + 1:
                res.fail("display toggle command not recognised by the device", "")
                return
            if kind == "toggle" and getattr(dev, "_last_toggle_beep", None) != ac.beep:
                res.fail("display toggle command carries the wrong beep flag", "")
                return
            if kind == "caps":
                q = getattr(dev, "b5_queries", [])[n_b5:]
                want = [b"\xb5\x01\x00"] + ([b"\xb5\x01\x01\x01"] if len(dev.caps_pages) > 1 else [])
                if q != want:
                    res.fail("capability queries differ from the page selectors", repr([x.hex() for x in q]))
                    return
            if kind in ("apply",) and len(dev.controls) != n_ctrl + 1:
                res.fail("apply did not produce exactly one accepted control command", "")
                return
            if kind == "selfclean":
                if len(dev.prop_sets) != n_ps + 1 or dict(dev.prop_sets[-1][1]).get(0x0039) != b"\x01":
                    res.fail("self-clean property write not accepted", repr(dev.prop_sets[n_ps:]))
                    return

    try:
        w.run(main)
    except (SimDeadlock, SimStepLimit) as e:
        res.fail(f"liveness: {type(e).__name__}", str(e))
    if res.ok:
        prev = None
        for e in dev.log:
            if e["kind"] == "bad_frame":
                res.fail("malformed frame: " + e["err"], e["frame"].hex())
                break
            if e["kind"] != "request":
                continue
            counts["cmds"] += 1
            body = e["body"]
            want_type = 0x02 if body[:1] in (b"\x40", b"\xb0") else 0x03
            if e["ftype"] != want_type:
                res.fail(f"frame type {e['ftype']:#x} for command 0x{body[0]:02x}", e["frame"].hex())
                break
            if prev is not None and e["msg_id"] != (prev + 1) & 0xFF:
                if gaps[0] > 0 and e["msg_id"] == (prev + 2) & 0xFF:
                    gaps[0] -= 1
                else:
                    res.fail("message id does not advance by one modulo 256", f"{prev} -> {e['msg_id']} at command {counts['cmds']}")
                    break
            if prev == 255:
                w.probe("message_id_wrapped")
            prev = e["msg_id"]
    res.take(w)
    res.probes["commands_checked"] = counts["cmds"]
    res.key = res.digest
    res.nontrivial = counts["cmds"] >= 30
    return res


async def _cap(w, coro):
    from simkit.world import capture
    return await capture(w, coro)


def gen(j, rng, nops):
    version = rng.choice([2, 3])
    props = [c for c in PROP_CAPS if rng.random() < 0.6]
    extra = [(0x0216, b"\x02")] * (rng.random() < 0.6) + [(0x021F, b"\x02")] * (rng.random() < 0.6)
    recs = props + extra + [(0x0214, b"\x01"), (0x0224, b"\x01")]
    rng.shuffle(recs)
    if rng.random() < 0.5 and len(recs) > 2:
        k = rng.randrange(1, len(recs))
        pages = [[[(c, v.hex()) for c, v in recs[:k]], True], [[(c, v.hex()) for c, v in recs[k:]], False]]
    else:
        pages = [[[(c, v.hex()) for c, v in recs], rng.choice([None, False])]]
    cfg = {"version": version,
           # start value of the process-global command counter: small, and just below every power-of-two /
           # machine-word boundary a bounded counter might wrap at
           "msg_id_start": rng.choice([0, 1, 200, 250, 254, 255, rng.randrange(256), 65279, 65500, 65533, 65535, 65536,
                                       2 ** 24 - 3, 2 ** 31 - 5, 2 ** 32 - 4, 2 ** 63 - 2, 2 ** 64 - 3]),
           "caps_pages": pages, "backpressure": rng.random() < 0.25, "clients": 2,
           # units differ in how they sign the body of their responses (CRC-8 or a plain checksum)
           "check_style": rng.choice(["crc", "crc", "sum"])}
    ops = [{"op": "caps"}] if rng.random() < 0.8 else []
    while len(ops) < nops:
        r = rng.random()
        if r < 0.05 and version == 2:
            ops.append({"op": "concurrent"})
        elif r < 0.07:
            ops.append({"op": "bad_apply", "value": rng.choice([300, -1, 256, 1000, 50.5, 128, 255])})
        elif r < 0.075 and version == 2 and nops <= 40:
            ops.append({"op": "failed_connect_gap", "r": rng.choice([256, 256, 512, 255, 257, 1]), "delay": 4.0})
        elif r < 0.08:
            ops.append({"op": "caps_notified"})
        elif r < 0.09:
            sub = [c for c in PROP_CAPS if rng.random() < 0.5] + [(0x0214, b"\x01")]
            rng.shuffle(sub)
            ops.append({"op": "race_caps", "pages": [[[(c, v.hex()) for c, v in sub], None]], "lat": rng.choice([0.1, 0.5, 1.0])})
        elif r < 0.25:
            ops.append({"op": "refresh"})
        elif r < 0.32:
            ops.append({"op": "caps"})
        elif r < 0.42:
            ops.append({"op": "beep", "value": rng.random() < 0.5})
            ops.append({"op": "toggle"})
        elif r < 0.50:
            ops.append({"op": "selfclean"})
        elif r < 0.75:
            from .c01 import client_sets
            ops.append({"op": "apply", "set": client_sets(rng)})
        else:
            for _ in range(rng.randint(1, 3)):
                attr = rng.choice(sorted(PROP_SETTERS))
                ops.append({"op": "setprop", "attr": attr, "value": rng.choice(PROP_SETTERS[attr])})
            ops.append({"op": "beep", "value": rng.random() < 0.5})
            ops.append({"op": "apply"})
    return {"config": cfg, "ops": ops}


def space(tier):
    sp = Space(ID)
    SETTABLE_PIDS = [0x0009, 0x000A, 0x0018, 0x001A, 0x0039, 0x0042, 0x0043, 0x0048, 0x00E3]

    def direct(j, rng):
        cmds = []
        for _ in range(rng.randint(10, 60)):
            k = rng.choice(["state", "state", "energy", "humidity", "caps", "toggle", "getprops", "setprops", "set"])
            if k == "state":
                cmds.append(["state", rng.choice([0, 2, 3])])
            elif k in ("energy", "humidity"):
                cmds.append([k])
            elif k == "caps":
                cmds.append(["caps", rng.random() < 0.5])
            elif k == "toggle":
                cmds.append(["toggle", rng.random() < 0.5])
            elif k == "getprops":
                cmds.append(["getprops", rng.sample(SETTABLE_PIDS + [0x0015, 0x004B, 0x021E], rng.randint(1, 8))])
            elif k == "setprops":
                pids = rng.sample(SETTABLE_PIDS, rng.randint(1, 6))          # any record order, IECO anywhere
                cmds.append(["setprops", [[pid, (rng.random() < 0.5) if pid in (0x0018, 0x001A, 0x0039, 0x00E3) else
                                           rng.choice([0, 1, 2, 3, 4, 25, 50, 100])] for pid in pids]])
            else:
                cmds.append(["set", {"power_on": rng.random() < 0.5, "target_temperature": rng.randint(26, 86) / 2.0,
                                     "operational_mode": rng.randint(1, 6), "fan_speed": rng.randint(1, 102),
                                     "eco": rng.random() < 0.5, "turbo": rng.random() < 0.5, "sleep": rng.random() < 0.5,
                                     "fahrenheit": rng.random() < 0.5, "beep_on": rng.random() < 0.5,
                                     "target_humidity": rng.randint(0, 100), "aux_heat": rng.random() < 0.5}])
        return {"mode": "direct", "commands": cmds, "msg_id_start": rng.choice([0, 200, 250, 255, 65535])}
    sp.add("commands_built_directly", 600 if tier == "quick" else 60_000, direct)

    def direct_ro(j, rng):
        # the same, with property writes that name ids the client knows but cannot encode (indoor humidity, fresh
        # air, anion) among encodable ones: refused as a whole, or emitted well formed
        plan = direct(j, rng)
        cmds = plan["commands"]
        for _ in range(rng.randint(1, 4)):
            pids = rng.sample(SETTABLE_PIDS, rng.randint(0, 3)) + rng.sample(list(READ_ONLY_PIDS), rng.randint(1, 2))
            rng.shuffle(pids)
            cmds.insert(rng.randrange(0, len(cmds) + 1),
                        ["setprops", [[pid, (rng.random() < 0.5) if pid in (0x0018, 0x001A, 0x0039, 0x00E3) else
                                       rng.choice([0, 1, 2, 50, 100])] for pid in pids]])
        return plan
    sp.add("property_writes_naming_unencodable_ids", 300 if tier == "quick" else 20_000, direct_ro)
    sp.add("long_histories", 60 if tier == "quick" else 6000, lambda j, rng: gen(j, rng, 260), wall_limit=600)
    sp.add("short_histories", 2400 if tier == "quick" else 40_000, lambda j, rng: gen(j, rng, 30))

    def every_value(j, rng):
        p = gen(j, rng, 0)
        p["config"]["caps_pages"] = [[[(c, v.hex()) for c, v in PROP_CAPS if c not in (0x0042, 0x0018) or j % 2], None]]
        if j % 2:
            p["config"]["caps_pages"][0][0] = [r for r in p["config"]["caps_pages"][0][0] if r[0] != 0x0043]
        ops = [{"op": "caps"}]
        for attr, vals in sorted(PROP_SETTERS.items()):
            for v in vals:
                ops += [{"op": "setprop", "attr": attr, "value": v}, {"op": "apply"}]
        p["ops"] = ops
        return p
    sp.add("every_property_value", 8 if tier == "quick" else 200, every_value, exhaustive=True, wall_limit=600)
    return sp
