"""C13 - corrupted responses are rejected and never change state."""
import asyncio

from . import appfault
from .common import REAL_BASE, STUB_BASE, Result, Space, SimDeadlock, SimStepLimit, codec
from .session import Session, snapshot, compare_view, CLIENT_ATTRS

ID = "C13"
LEVEL = "fault_enumeration"
RULE = ("A case is (protocol version, response kind: state/energy/humidity/properties (within a refresh that issues "
        "all four queries) or capabilities (get_capabilities), one corruption of the valid response frame: byte "
        "position x substitute value, without fix-up (positions 1..end) or with the outer checksum recomputed (body "
        "positions except the check byte); variant 'all' corrupts every frame of the refresh). The device's data "
        "changes before the corrupted exchange so that an accepted frame is visible. Parts 'nofix_*'/'fix_*' "
        "enumerate every position of every kind x substitutes (all 255 in thorough, 12 sampled in quick). Distinct = "
        "distinct (kind, position, value, fixup, version); non-trivial = the corrupted frame is invalid by the stated "
        "rule (the others are counted as exempt_by_stated_rule and not asserted)."
        " Later additions: places 'twice', 'bad_bad_good', 'many_then_good'; the rejected frame as the first frame the object ever sees (twin-object oracle); other frame types; a report that embeds the image of a frame, with every value of its length byte; the same rejected answer in 3-5 consecutive polls followed by a clean poll; a corrupted-only poll up to 2 h after the last valid report.")
ASSUMPTIONS = [
    "validity rule applied by the oracle is the one the property states (outer checksum; body check byte equals "
    "CRC-8 or additive checksum; property responses 0xB0/0xB1 exempt from the body check) - cases the rule cannot "
    "detect are exempt, not asserted",
    "attributes are grouped by the response kind that drives them; a rejected frame must leave its group untouched "
    "while the validly answered queries of the same refresh still update theirs",
    "an operation that raises is C14's subject and only recorded as a probe here",
]
COMPONENTS = {"real": REAL_BASE + ["Frame.validate, Response.validate/construct, AirConditioner.refresh/"
                                   "get_capabilities/_update_state"], "stub": STUB_BASE}

KINDS = {"state": 0, "energy": 1, "humidity": 2, "props": 3}
FRAME_LEN = {"state": 37, "energy": 33, "humidity": 33, "props": 56, "caps": 45}
GROUPS = {
    "state": CLIENT_ATTRS,
    "energy": ("total_energy_usage", "current_energy_usage", "real_time_power_usage"),
    "humidity": ("indoor_humidity",),
    "props": ("horizontal_swing_angle", "vertical_swing_angle", "rate_select", "breeze_away", "breeze_mild",
              "breezeless", "ieco", "self_clean_active"),
    "caps": ("supported_operation_modes", "supported_swing_modes", "supported_fan_speeds", "supports_custom_fan_speed",
             "supports_eco", "supports_turbo", "supports_freeze_protection", "supports_display_control",
             "supports_filter_reminder", "supports_purifier", "supports_humidity", "supports_target_humidity",
             "supports_self_clean", "supported_rate_selects", "supported_aux_modes", "supports_breeze_away",
             "supports_breeze_mild", "supports_breezeless", "supports_ieco", "supports_horizontal_swing_angle",
             "supports_vertical_swing_angle", "min_target_temperature", "max_target_temperature"),
}

OLD_STATE = {"power": False, "mode": 2, "temp": 22.0, "fan": 40, "swing": 0, "eco": False, "turbo": False,
             "sleep": False, "fahrenheit": False, "freeze": False, "follow_me": False, "purifier": False,
             "humidity": 35, "aux_heat": False, "indep_aux": False, "display_on": True, "filter_alert": False,
             "indoor_raw": 0x60, "outdoor_raw": 0x50, "indoor_tenths": 0, "outdoor_tenths": 0}
NEW_STATE = {"power": True, "mode": 4, "temp": 27.5, "fan": 80, "swing": 0xF, "eco": True, "turbo": True,
             "sleep": True, "fahrenheit": True, "freeze": True, "follow_me": True, "purifier": True,
             "humidity": 61, "aux_heat": True, "indep_aux": False, "display_on": False, "filter_alert": True,
             "indoor_raw": 0x6A, "outdoor_raw": 0x7B, "indoor_tenths": 0, "outdoor_tenths": 0}
NEW_PROPS = {0x0009: "32", 0x000A: "4b", 0x0039: "01", 0x0048: "3c", 0x0043: "04", 0x00E3: "0100" + "00" * 10}
NEW_ENERGY = "00098765" + "00000000" + "00000321" + "043210" + "00"
NEW_HUM = "42" + "00" * 15
NEW_CAPS = [(0x0214, b"\x03"), (0x0215, b"\x02"), (0x0212, b"\x00"), (0x021A, b"\x02"), (0x0224, b"\x00"),
            (0x0225, b"\x22\x3a\x22\x3a\x22\x3a\x01")]


def run(plan):
    s = Session(plan, max_iterations=6000)
    w = s.world
    dev = s.dev
    res = Result()
    appfault.install(dev)
    kind = plan["kind"]
    corrupt = plan["corrupt"]         # [pos, delta, fixup]
    stats = {"exempt": 0, "judged": 0}

    async def main(w):
        ac = s.make_clients()[0]
        if s.version == 3:
            o = await s.do({"op": "auth"})
            if o.kind != "ok":
                res.fail(f"genuine handshake raised {o.exc_type}", repr(o.exc))
                return
        if plan.get("fresh_first"):
            # the corrupted frame is the very first frame this object ever receives; afterwards it must be
            # indistinguishable from a twin object that never saw it
            fspec = {"base": "honest", "edit": [["corrupt"] + list(corrupt)], "place": "alone"}
            dev.bad_frames = []
            o = await s.do({"op": "caps" if kind == "caps" else "refresh", "net": [{"app": fspec}]})
            if o.kind != "ok":
                w.probe("operation_raised_(C14_domain)")
                return
            if not dev.bad_frames or codec.response_valid_by_stated_rule(dev.bad_frames[0]):
                stats["exempt"] += 1
                return
            stats["judged"] += 1
            twin = w.ns.AC(ip=ac.ip, port=ac.port, device_id=ac.id)
            if s.version == 3:
                from simkit.world import capture
                o = await capture(w, twin.authenticate(s.token.hex(), s.key.hex()))
                if o.kind != "ok":
                    res.fail("twin handshake failed", repr(o))
                    return
            for obj in (ac, twin):
                for meth in ("get_capabilities", "refresh", "refresh"):
                    from simkit.world import capture
                    o = await capture(w, getattr(obj, meth)())
                    if o.kind != "ok":
                        res.fail(f"clean {meth} after a rejected first frame failed", repr(o))
                        return
            sa, sb = snapshot(ac), snapshot(twin)
            diff = {a: (sa[a], sb[a]) for a in sa if sa[a] != sb[a]}
            if diff or ac.online != twin.online or ac.supported != twin.supported:
                res.fail("a rejected frame left a trace: " + (sorted(diff)[0] if diff else "online/supported"),
                         f"object that received the rejected frame first vs twin: {diff}")
            w.fire("rejected_frame_is_the_first_frame_ever")
            return
        for opn in ("caps", "refresh"):
            o = await s.do({"op": opn})
            if o.kind != "ok" or (opn == "refresh" and not ac.online):
                res.fail(f"clean {opn} failed", repr(o))
                return
        if plan.get("caps_with_extra") and s.version == 3:
            # history: a capability query whose exchange also carried a valid frame of another kind (an
            # unsolicited state report in the same segment), and no good refresh before the corrupted one
            o = await s.do({"op": "caps", "net": [{"pre": ["unsol_state"]}]})
            if o.kind != "ok":
                res.fail("get_capabilities with an extra frame failed", repr(o))
                return
            w.fire("caps_exchange_with_extra_valid_frame")
        if plan.get("caps_after_poll"):
            # history: the unit ran at an unnamed fan speed when it was first polled; only then were its
            # capabilities queried, and they say "named speeds only"
            dev.state["fan"] = 55
            o = await s.do({"op": "refresh"})
            dev.caps_pages = [([(0x0210, b"\x07"), (0x0214, b"\x01"), (0x0216, b"\x02"), (0x021F, b"\x02")], None)]
            o = await s.do({"op": "caps"})
            if o.kind != "ok":
                res.fail("clean caps failed", repr(o))
                return
            w.fire("capabilities_learned_after_the_first_poll")
        snap0 = snapshot(ac)
        # the device's data changes
        dev.state.update(NEW_STATE)
        dev.props = {k: bytes.fromhex(v) for k, v in NEW_PROPS.items()}
        dev.energy = bytes.fromhex(NEW_ENERGY)
        dev.humidity = bytes.fromhex(NEW_HUM)
        old_caps = dev.caps_pages
        spec = {"base": "honest", "edit": [["corrupt"] + list(corrupt)], "place": plan.get("place", "alone"),
                "n": plan.get("n", 12)}
        if s.version != 3:
            spec["place"] = "alone"          # several frames in one exchange need one TCP segment (V3)
        if kind == "applyack":
            # the acknowledgement of a control command arrives corrupted: it is rejected, and what the user has just
            # set stays as set (no older report is dug out in its place)
            spec = {"base": "honest", "edit": [["corrupt"] + list(corrupt)], "place": "alone"}
            ac.target_temperature = 23.5
            ac.fan_speed = 60
            ac.eco = not ac.eco
            mine = snapshot(ac)
            dev.bad_frames = []
            o = await s.do({"op": "apply", "net": [{"app": spec}]})
            if o.kind != "ok":
                w.probe("operation_raised_(C14_domain)")
                return
            if not dev.bad_frames:
                raise RuntimeError("no corrupted frame was produced")
            if codec.response_valid_by_stated_rule(dev.bad_frames[0]):
                stats["exempt"] += 1
                return
            stats["judged"] += 1
            after = snapshot(ac)
            ch = [(a, mine[a], after[a]) for a in GROUPS["state"] if mine[a] != after[a]]
            if ch:
                res.fail("rejected state frame changed state: " + ch[0][0],
                         f"corrupted acknowledgement of a control command: {ch}")
            return
        if kind == "propwrite":
            # a corrupted *state* frame arrives in the exchange of a property write (apply's second exchange)
            spec = {"base": "state", "edit": [["corrupt"] + list(corrupt)],
                    "place": "before_good" if s.version == 3 else "alone"}
            ac.ieco = not ac.ieco
            ac.target_temperature = 23.0
            op = {"op": "apply", "net": [{}, {"app": spec}]}
            dev.bad_frames = []
            o = await s.do(op)
            if o.kind != "ok":
                w.probe("operation_raised_(C14_domain)")
                return
            if not dev.bad_frames:
                raise RuntimeError("no corrupted frame was produced")
            if codec.response_valid_by_stated_rule(dev.bad_frames[0]):
                stats["exempt"] += 1
                return
            stats["judged"] += 1
            bad = compare_view(ac, dev.state, dev.state_len)
            if bad:
                res.fail("rejected state frame changed state: " + bad[0][0],
                         f"corrupted state frame delivered during a property write: {bad}")
            return
        if plan.get("ftype") is not None:
            # the corrupted frame carries another (legal) frame type: report 0x04/0x05, abnormal report 0x06 ...
            spec["edit"] = [["ftype", plan["ftype"]]] + spec["edit"]
        if plan.get("embed") and kind == "state":
            # the valid report is an extended one whose trailing bytes happen to hold the image of a complete,
            # well-formed frame (another state): corrupting the carrier must not make the image count
            from refmodel import acmodel
            img_state = dict(OLD_STATE, power=not OLD_STATE["power"], mode=5, temp=19.0, fan=60, eco=True)
            ib = acmodel.encode_state(img_state, 24) + b"\x77"
            ib = codec.body_with_crc(ib)
            image = codec.frame_build(ib, 0x03)
            dev.raw_state = (acmodel.encode_state(dev.state, 24) + image, True)
            w.fire("report_with_embedded_frame_image")
        if kind == "caps":
            dev.caps_pages = [(NEW_CAPS, None)]
            op = {"op": "caps", "net": [{"app": spec}]}
        elif kind == "all" and plan.get("silent_queries"):
            # some queries of the poll are never answered (three transmissions each), the others only by the
            # corrupted frame: still no valid frame in the whole poll
            net = []
            for q in range(3 if plan.get("caps_after_poll") else 4):
                net += [{"drop": True}] * 3 if q in plan["silent_queries"] else [{"app": spec}]
            op = {"op": "refresh", "net": net}
            w.fire("unanswered_and_corrupted_queries_in_one_poll")
        elif kind == "all":
            op = {"op": "refresh", "net": [{"app": spec} for _ in range(4)]}
        else:
            net = [{} for _ in range(4)]
            net[KINDS[kind]] = {"app": spec}
            op = {"op": "refresh", "net": net}
        if plan.get("idle_before"):
            # the last valid report is some time old when the corrupted answers arrive
            await asyncio.sleep(plan["idle_before"])
            snap0 = snapshot(ac)
            w.fire("corrupted_answer_long_after_the_last_valid_one")
        dev.bad_frames = []
        pre_snap = []
        o = await s.do(op)
        for _ in range(plan.get("repeat", 0)):
            # the same corrupted answer in several consecutive polls
            if o.kind != "ok":
                break
            await asyncio.sleep(1.0)
            o = await s.do({k: ([dict(x) for x in v] if k == "net" else v) for k, v in op.items()})
        dev.raw_state = None
        if o.kind != "ok":
            w.probe("operation_raised_(C14_domain)")
            return
        bad_frames = dev.bad_frames
        if plan.get("repeat") and kind in ("energy", "humidity", "props") and spec["place"] == "alone":
            if all(not codec.response_valid_by_stated_rule(f) for f in bad_frames):
                # afterwards a poll that is answered properly: the data the rejected frames withheld is fetched
                pre_snap.append(snapshot(ac))
                o2 = await s.do({"op": "refresh"})
                snap2 = snapshot(ac)
                if o2.kind == "ok" and not [a for a in GROUPS[kind] if snap0[a] != snap2[a]]:
                    res.fail(f"valid {kind} data is no longer fetched after rejected answers",
                             f"{plan['repeat'] + 1} polls with a rejected {kind} answer, then a clean poll: nothing changed")
                    return
                w.fire("clean_poll_after_repeated_rejected_answers")
        if not bad_frames:
            raise RuntimeError("no corrupted frame was produced")
        if kind not in ("all",) and len(bad_frames[0]) != FRAME_LEN[kind]:
            w.probe("frame_length_differs_from_enumeration_table")     # positions are taken modulo the real length
        invalid = [not codec.response_valid_by_stated_rule(f) for f in bad_frames]
        snap1 = pre_snap[0] if pre_snap else snapshot(ac)

        def group_changed(g):
            return [(a, snap0[a], snap1[a]) for a in GROUPS[g] if snap0[a] != snap1[a]]

        if spec["place"] in ("bad_bad_good", "many_then_good"):
            # the valid frame that follows the two rejected ones in the same exchange must still be used
            if not all(invalid[:1]):
                stats["exempt"] += 1
                return
            stats["judged"] += 1
            if kind == "caps":
                return
            if not ac.online:
                res.fail("valid frame following rejected ones in the same exchange was not used (offline)", f"{kind}")
                return
            bad = compare_view(ac, dev.state, dev.state_len)
            if bad:
                res.fail("valid state frame following rejected ones was not applied: " + bad[0][0], repr(bad))
                return
            if kind in ("energy", "humidity", "props") and not group_changed(kind):
                res.fail(f"valid {kind} frame following rejected ones in the same exchange was not applied", "")
            return
        if kind == "all":
            if not all(invalid):
                stats["exempt"] += 1
                return
            stats["judged"] += 1
            for g in ("state", "energy", "humidity", "props"):
                ch = group_changed(g)
                if ch:
                    res.fail(f"rejected {g} frame changed state: {ch[0][0]}", repr(ch))
                    return
            if ac.online or ac.supported:
                res.fail("refresh that received only invalid frames reports online/supported",
                         f"online={ac.online} supported={ac.supported}")
            return
        if not invalid[0] or (plan.get("repeat") and not all(invalid)):
            # (with repeated polls every one of the corrupted frames has to be invalid by the stated rule: the
            #  message id differs from poll to poll, and with it the check bytes)
            stats["exempt"] += 1
            return
        stats["judged"] += 1
        ch = group_changed(kind)
        if ch:
            res.fail(f"rejected {kind} frame changed state: {ch[0][0]}", f"corrupt={corrupt} frame={bad_frames[0].hex()} {ch}")
            return
        if kind == "caps":
            if ac.supported:
                res.fail("capability query that received only an invalid frame reports supported", "")
            return
        # the validly answered queries of the same refresh are still applied
        if kind != "state":
            bad = compare_view(ac, dev.state, dev.state_len)
            if bad:
                res.fail("valid state frame of the same refresh was not applied: " + bad[0][0], repr(bad))
                return
        if not ac.online:
            res.fail("refresh offline although valid frames were received", "")

    try:
        w.run(main)
    except (SimDeadlock, SimStepLimit) as e:
        res.fail(f"liveness: {type(e).__name__}", str(e))
    res.take(w)
    res.add_fired(dev.fired)
    res.exempt = stats["exempt"]
    res.key = (plan["config"]["version"], kind, tuple(corrupt), bool(plan.get("fresh_first")), plan.get("ftype"),
               bool(plan.get("embed")), plan.get("place"), plan.get("repeat"), plan.get("idle_before"), bool(plan.get("caps_after_poll")))
    res.nontrivial = stats["judged"] > 0
    return res


def cfg(version):
    from .c14 import cfg as c14cfg
    c = c14cfg(version)
    c["state"] = dict(OLD_STATE)
    return c


def space(tier):
    sp = Space(ID)
    nvals = 255 if tier == "thorough" else 24
    for kind in ("state", "energy", "humidity", "props", "caps", "all", "propwrite"):
        n = FRAME_LEN.get(kind, FRAME_LEN["state"])
        nofix_pos = list(range(1, n)) if kind not in ("all",) else list(range(1, 33))
        fix_pos = list(range(10, n - 2)) if kind not in ("all",) else list(range(10, 31))
        for label, positions, fixup in (("nofix", nofix_pos, False), ("fix", fix_pos, True)):
            def fn(j, rng, kind=kind, positions=positions, fixup=fixup):
                pos = positions[j // nvals % len(positions)]
                delta = (j % nvals) + 1 if nvals == 255 else rng.randrange(1, 256)
                version = 2 + (j + j // nvals) % 2
                return {"config": cfg(version), "kind": kind, "corrupt": [pos, delta, fixup],
                        "caps_with_extra": rng.random() < 0.3,
                        "fresh_first": kind in ("caps", "state") and rng.random() < 0.3,
                        "ftype": rng.choice([None, None, None, 0x02, 0x04, 0x05, 0x06, 0x0A]),
                        "repeat": rng.choice([0, 0, 0, 2, 3, 4]) if kind in ("energy", "humidity", "props") else 0,
                        "idle_before": rng.choice([0, 0, 0, 100.0, 1000.0, 7200.0]),
                        "caps_after_poll": kind in ("state", "all") and rng.random() < 0.2,
                        # several frames in one exchange: the corrupted one twice / twice and then the valid one
                        "place": rng.choice(["alone", "alone", "twice", "bad_bad_good", "many_then_good"]) if kind != "caps" else
                        rng.choice(["alone", "twice"]), "n": rng.choice([7, 8, 9, 16, 33])}
            def fn2(j, rng, fn=fn):
                p = fn(j, rng)
                if p.get("repeat"):
                    # the repeated-poll history is kept free of the other variations
                    p.update({"place": "alone", "ftype": None, "caps_with_extra": False, "fresh_first": False})
                if p["kind"] == "all" and rng.random() < 0.3:
                    nq = 3 if p.get("caps_after_poll") else 4        # the late profile has no property query
                    p["silent_queries"] = sorted(rng.sample(range(nq), rng.randint(1, nq - 1)))
                    p["place"] = rng.choice(["alone", "twice"])
                return p
            reps = 2 if tier == "thorough" else 1
            sp.add(f"{label}_{kind}", len(positions) * nvals * reps, fn2, exhaustive=(nvals == 255))

    ack_pos = list(range(1, FRAME_LEN["state"]))

    def applyack(j, rng):
        pos = ack_pos[j % len(ack_pos)]
        return {"config": cfg(2 + (j // len(ack_pos)) % 2), "kind": "applyack",
                "corrupt": [pos, rng.randrange(1, 256), bool((j // (2 * len(ack_pos))) % 2)], "place": "alone"}
    sp.add("corrupted_acknowledgement_of_apply", len(ack_pos) * 4 * (1 if tier == "quick" else 20), applyack, exhaustive=True)

    def embedded(j, rng):
        # every value of the length byte (and of the other header bytes) of a report that embeds a frame image
        pos = 1 if j < 255 * 2 else rng.randrange(1, 10)
        delta = (j % 255) + 1
        return {"config": cfg(2 + (j // 255) % 2), "kind": "state", "corrupt": [pos, delta, False], "embed": True,
                "place": "alone"}
    sp.add("embedded_frame_image_all_length_bytes", 255 * 2 + (100 if tier == "quick" else 2000), embedded, exhaustive=True)
    return sp
