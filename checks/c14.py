"""C14 - application containment: no device response makes an operation raise."""
from . import appfault
from .common import REAL_BASE, STUB_BASE, Result, Space, SimDeadlock, SimStepLimit
from .session import Session, compare_view

ID = "C14"
LEVEL = "exploration"
RULE = ("A case is (protocol version, operation: refresh (issuing state+energy+humidity+property queries) / apply / "
        "get_capabilities / toggle_display / start_self_clean, which request of the operation is answered badly, "
        "malformed response: a valid response of kind state/caps/caps-page-2/props/props-ack/energy/humidity truncated "
        "to every shorter length (with and without a message-id byte, checks recomputed), each count/size byte set to "
        "values 0..255, every response id 0..255 with random bodies of several lengths, empty / sub-header / oversized "
        "frames; delivered alone or (V3, same TCP segment) before/after/around the good response). Parts 'trunc_all', "
        "'ids_all', 'raw_frames' are enumerated completely; 'fields' and 'random' are seeded. Distinct = distinct "
        "plan; non-trivial = a malformed frame reached the client."
        " Later additions: parts 'bursts_of_rejected_frames', 'well_formed_report_histories' (energy / humidity / property reports with every value combination in any order), 'request_answered_twice'; the state report of a refresh must be applied when only a later query of the same refresh was answered badly.")
ASSUMPTIONS = [
    "malformed frames carry valid outer checksum and body check byte unless the case is about sub-header frames",
    "mixes of good and bad frames in one exchange need both in one TCP segment, hence V3 (V2 is packet-aligned)",
    "in mixed exchanges the device state must be reflected after refresh; alone, only 'returns normally' is required",
]
COMPONENTS = {"real": REAL_BASE + ["AirConditioner.refresh/apply/get_capabilities/toggle_display/start_self_clean, "
                                   "Response.construct and all response parsers"], "stub": STUB_BASE}

BASES = ["state", "caps", "caps2", "props", "props_ack", "energy", "humidity"]
OPS = ["refresh", "apply", "caps", "toggle", "selfclean"]
# number of requests each op issues once the full capability profile is learned
NREQ = {"refresh": 4, "apply": 2, "caps": 1, "toggle": 2, "selfclean": 1}
RAW_FRAMES = ["", "aa", "aa00", "aa0aac", "aa0aac00000000000003", "aa0aac0000000000000347", "aa0bac00000000000003c08a",
              "aa0cac00000000000003c000" + "8a", "00", "ff" * 11, "aa0bac00000000000003b1" + "00", "aa0bac00000000000003b5" + "00",
              "aa0cac00000000000003c1c1" + "00", "aa0dac00000000000003c1210144"]


def base_len(base):
    # generous upper bound on honest body lengths for enumeration
    return {"state": 24, "caps": 70, "caps2": 12, "props": 40, "props_ack": 40, "energy": 20, "humidity": 20}[base]


def run(plan):
    s = Session(plan, max_iterations=6000)
    w = s.world
    dev = s.dev
    res = Result()
    appfault.install(dev)
    opname = plan.get("target", "refresh")
    spec = plan.get("app", {})
    which = plan.get("which", 0)
    mixed = spec.get("place", "alone") != "alone"

    async def history(w):
        """Well-formed reports only, in an order or combination real units rarely produce: every operation still
        ends normally and the object stays usable."""
        ac = s.make_clients()[0]
        if s.version == 3:
            o = await s.do({"op": "auth"})
            if o.kind != "ok":
                res.fail(f"genuine handshake raised {o.exc_type}", repr(o.exc))
                return
        dev.caps_pages = [([(cid, bytes.fromhex(v)) for cid, v in plan["caps_profile"]], None)]
        o = await s.do({"op": "caps"})
        if o.kind != "ok":
            res.fail(f"clean get_capabilities raised {o.exc_type}", repr(o.exc))
            return
        for step in plan["steps"]:
            if "energy" in step:
                dev.energy = bytes.fromhex(step["energy"])
            if "humidity" in step:
                dev.humidity = bytes.fromhex(step["humidity"])
            if "props" in step:
                dev.props = {int(k): bytes.fromhex(v) for k, v in step["props"].items()}
            opn = step.get("op", "refresh")
            o = await s.do({"op": opn})
            if o.kind != "ok":
                res.fail(f"{opn} raised {o.exc_type}", f"well-formed reports, step {step}: {o.exc!r}")
                return
            if opn == "refresh" and not ac.online:
                res.fail("refresh offline although every report was well-formed", repr(step))
                return
            # (how an unnamed fan speed is shown depends on the learned profile: C11's subject)
            bad = compare_view(ac, dev.state, dev.state_len, skip=("fan_speed",))
            if bad and opn == "refresh":
                res.fail("refresh view differs: " + bad[0][0], repr(bad))
                return
        w.fire("well_formed_report_history")

    async def main(w):
        if plan.get("steps") is not None:
            return await history(w)
        ac = s.make_clients()[0]
        if s.version == 3:
            o = await s.do({"op": "auth"})
            if o.kind != "ok":
                res.fail(f"genuine handshake raised {o.exc_type}", repr(o.exc))
                return
        if plan.get("caps_profile"):
            dev.caps_pages = [([(cid, bytes.fromhex(v)) for cid, v in plan["caps_profile"]], None)]
        if plan.get("learn_caps", True):
            o = await s.do({"op": "caps"})
            if o.kind != "ok":
                res.fail(f"clean get_capabilities raised {o.exc_type}", repr(o.exc))
                return
        nreq = NREQ[opname]
        if plan.get("caps_profile") is not None and opname == "refresh":
            nreq = 4       # upper bound; unused directives are simply dropped
        net = [{} for _ in range(nreq + 1)]
        net[which % nreq] = {"app": spec}
        if plan.get("answered_twice"):
            # the unit is busy, misses the 2 s window, and then answers the original and the re-sent request back to
            # back: two well-formed answers of the same kind in one exchange
            net = [{} for _ in range(which % nreq)] + [{"hold": "next"}, {}] + [{} for _ in range(nreq)]
            w.fire("request_answered_twice_in_one_exchange")
        op = {"op": opname, "net": net}
        if opname == "apply":
            # property settings changed too, so that apply() makes its second (property write) exchange
            op["set"] = {"target_temperature": 21.5, "power_state": True, "ieco": True, "rate_select": 40}
            net.append({})
        o = await s.do(op)
        if o.kind != "ok":
            res.fail(f"{opname} raised {o.exc_type}", f"{spec} -> {o.exc!r}")
            return
        from refmodel import codec as _codec
        decodable_state = any(len(f) >= 28 and f[10] == 0xC0 and _codec.response_valid_by_stated_rule(f)
                              for f in (getattr(dev, "bad_frames", None) or []))
        if decodable_state:
            w.probe("injected_frame_is_itself_a_decodable_state_report")
        if mixed and opname == "refresh" and not getattr(dev, "bad_frames", None) is None and not (
                decodable_state and spec.get("place") in ("after_good", "both")):
            if not ac.online:
                res.fail("refresh offline although good frames were delivered in the same exchange", f"{spec}")
                return
            bad = compare_view(ac, dev.state, dev.state_len)
            if bad and which % NREQ[opname] == 0:
                res.fail("good frame delivered with a bad one in the same exchange was not applied: " + bad[0][0], repr(bad))
                return
        state_like = any(len(f) > 10 and f[10] == 0xC0 for f in (getattr(dev, "bad_frames", None) or []))
        if (opname == "refresh" and which % nreq != 0 and plan.get("learn_caps", True) and not plan.get("caps_profile")
                and not state_like):
            # only a later query of this refresh was answered badly: the state report of the same refresh was
            # well-formed and must have been applied
            if not ac.online:
                res.fail("refresh offline although the state query of the same refresh was answered well", f"{spec}")
                return
            bad = compare_view(ac, dev.state, dev.state_len)
            if bad:
                res.fail("state report of a refresh was discarded because a later query was answered badly: " + bad[0][0], repr(bad))
                return
        # usable afterwards
        o2 = await s.do({"op": "refresh"})
        if o2.kind != "ok":
            res.fail(f"follow-up refresh raised {o2.exc_type}", repr(o2.exc))
            return
        if not ac.online:
            res.fail("follow-up refresh offline", "")
            return
        bad = compare_view(ac, dev.state, dev.state_len)
        if bad:
            res.fail("follow-up refresh view differs: " + bad[0][0], repr(bad))

    try:
        w.run(main)
    except (SimDeadlock, SimStepLimit) as e:
        res.fail(f"liveness: {type(e).__name__}", str(e))
    res.take(w)
    res.add_fired(dev.fired)
    res.key = (plan["config"]["version"], opname, which, repr(spec), repr(plan.get("steps")))
    res.nontrivial = bool(getattr(dev, "bad_frames", None)) or plan.get("steps") is not None
    return res


def cfg(version, rng=None):
    c = {"version": version}
    c.update(appfault.full_caps_config())
    c["props"] = {str(0x0009): "19", str(0x000A): "32", str(0x0039): "00", str(0x0048): "28", str(0x0043): "03",
                  str(0x00E3): "0101" + "00" * 10}
    c["energy"] = "00012345" + "00000000" + "00000150" + "012340" + "00"
    c["humidity_data"] = "37" + "00" * 15
    return c


def space(tier):
    sp = Space(ID)
    # --- every truncation of every base kind, with and without msg id, for every op (first request)
    trunc = []
    for base in BASES:
        for n in range(0, base_len(base) + 1):
            for nomsgid in (False, True):
                trunc.append((base, n, nomsgid))

    def trunc_fn(j, rng):
        base, n, nomsgid = trunc[j % len(trunc)]
        k = j // len(trunc)
        opname = OPS[k % len(OPS)]
        version = 2 + (k // len(OPS)) % 2
        place = "alone"
        if version == 3:
            place = ["alone", "before_good", "after_good"][(k // (2 * len(OPS))) % 3]
            if base == "state" and n >= 15 and place == "after_good":
                place = "before_good"      # a state body of >= 16 bytes is a decodable (legacy short) report
        edit = [["trunc", n]] + ([["nomsgid"]] if nomsgid else [])
        return {"config": cfg(version), "target": opname, "which": rng.randrange(NREQ[opname]),
                "app": {"base": base, "edit": edit, "place": place}}
    sp.add("trunc_all", len(trunc) * len(OPS) * (2 if tier == "quick" else 6), trunc_fn, exhaustive=True)

    # --- every response id with random bodies
    def ids_fn(j, rng):
        rid = j % 256
        n = [0, 1, 2, 3, 5, 12, 21, 40][(j // 256) % 8]
        version = rng.choice([2, 3])
        opname = rng.choice(OPS)
        return {"config": cfg(version), "target": opname, "which": rng.randrange(NREQ[opname]),
                "app": {"base": "random", "edit": [["rand", n, j], ["id", rid]] + ([["ftype", rng.choice([2, 3, 4, 5])]] if rng.random() < 0.3 else []),
                        # (a random body under the state id is a decodable state frame: never after the good one)
                        "place": "alone" if version == 2 else rng.choice(
                            ["alone", "before_good"] if rid == 0xC0 else ["alone", "before_good", "after_good"])}}
    sp.add("ids_all", 256 * 8 * (1 if tier == "quick" else 10), ids_fn, exhaustive=True)

    # --- count / size fields
    def fields_fn(j, rng):
        base = rng.choice(["caps", "caps2", "props", "props_ack"])
        val = j % 256
        pos = rng.choice([1, 1, 4, 5, 6, 8, 9, 10, 13, rng.randrange(1, 40)])
        version = rng.choice([2, 3])
        opname = rng.choice(OPS)
        edit = [["set", pos, val]]
        if rng.random() < 0.3:
            edit.append(["trunc", rng.randrange(2, 40)])
        return {"config": cfg(version), "target": opname, "which": rng.randrange(NREQ[opname]),
                "app": {"base": base, "edit": edit,
                        "place": "alone" if version == 2 else rng.choice(["alone", "before_good", "after_good", "both"])}}
    sp.add("fields", 256 * (8 if tier == "quick" else 400), fields_fn)

    # --- raw sub-header / empty frames
    def raw_fn(j, rng):
        raw = RAW_FRAMES[j % len(RAW_FRAMES)]
        k = j // len(RAW_FRAMES)
        opname = OPS[k % len(OPS)]
        version = 2 + (k // len(OPS)) % 2
        return {"config": cfg(version), "target": opname, "which": rng.randrange(NREQ[opname]),
                "app": {"base": "random", "edit": [["rawframe", raw]],
                        "place": "alone" if version == 2 else ["alone", "before_good", "after_good"][(k // (2 * len(OPS))) % 3]}}
    sp.add("raw_frames", len(RAW_FRAMES) * len(OPS) * 2 * 3, raw_fn, exhaustive=True)

    def ftype_fn(j, rng):
        """Every response kind under every frame type byte 0..8 (e.g. a capability notification of type 0x05)."""
        base = BASES[j % len(BASES)]
        ft = (j // len(BASES)) % 9
        k = j // (len(BASES) * 9)
        opname = OPS[k % len(OPS)]
        version = 2 + (k // len(OPS)) % 2
        return {"config": cfg(version), "target": opname, "which": rng.randrange(NREQ[opname]),
                "app": {"base": base, "edit": [["ftype", ft]],
                        "place": "alone" if version == 2 else ["alone", "before_good", "after_good"][(k // (2 * len(OPS))) % 3]}}
    sp.add("frame_types", len(BASES) * 9 * len(OPS) * 2 * 3, ftype_fn, exhaustive=True)

    def oversized_fn(j, rng):
        version = rng.choice([2, 3])
        opname = rng.choice(OPS)
        base = rng.choice(BASES)
        n = rng.choice([230, 244, 245, 246, 255, 300])
        edit = [["rand", n, j]]
        if rng.random() < 0.7:
            edit.append(["id", {"state": 0xC0, "caps": 0xB5, "caps2": 0xB5, "props": 0xB1, "props_ack": 0xB0,
                                "energy": 0xC1, "humidity": 0xC1}[base]])
        return {"config": cfg(version), "target": opname, "which": rng.randrange(NREQ[opname]),
                "app": {"base": base, "edit": edit, "place": "alone"}}
    sp.add("oversized", 300 if tier == "quick" else 20000, oversized_fn)

    # --- well-formed frames with arbitrary field values, after the client learned different capability profiles
    PROFILES = [None, [[0x0210, "07"], [0x0214, "01"]], [[0x0210, "05"], [0x0216, "02"], [0x021F, "02"], [0x0048, "01"]],
                [[0x0210, "01"], [0x0009, "01"], [0x000A, "01"], [0x0042, "01"], [0x0018, "01"]], []]
    IDS = {"state": 0xC0, "caps": 0xB5, "caps2": 0xB5, "props": 0xB1, "props_ack": 0xB0, "energy": 0xC1, "humidity": 0xC1}

    def arbitrary_fn(j, rng):
        version = rng.choice([2, 3])
        opname = rng.choice(OPS)
        base = rng.choice(BASES)
        n = rng.choice([base_len(base), 24, 30, rng.randint(16, 60)])
        edit = [["rand", n, j], ["id", IDS[base]]]
        if base in ("energy", "humidity"):
            edit += [["set", 1, 0x21], ["set", 2, 0x01], ["set", 3, 0x44 if base == "energy" else 0x45]]
        if base in ("caps", "caps2", "props", "props_ack"):
            edit.append(["set", 1, rng.choice([0, 1, 2, 3, 5, 12, 255])])
        p = {"config": cfg(version), "target": opname, "which": rng.randrange(NREQ[opname]),
             "app": {"base": base, "edit": edit,
                     # a decodable state frame after the good one would legitimately win: only before it
                     "place": "alone" if version == 2 else rng.choice(
                         ["alone", "before_good"] if base == "state" else ["alone", "before_good", "after_good"])}}
        prof = PROFILES[j % len(PROFILES)]
        if j % 2:
            # a random well-formed profile: any known capability id with any value
            ids = [0x0210, 0x0212, 0x0213, 0x0214, 0x0215, 0x0216, 0x0217, 0x0219, 0x021A, 0x021E, 0x021F, 0x0222, 0x0224,
                   0x0009, 0x000A, 0x0018, 0x0039, 0x0042, 0x0043, 0x0048, 0x00E3]
            prof = [[cid, bytes([rng.choice([0, 1, 2, 3, 4, 5, 6, 7, 9, 100, rng.randrange(256)])]).hex()]
                    for cid in rng.sample(ids, rng.randint(1, 8))]
            if rng.random() < 0.3:
                prof.append([0x0225, bytes([rng.randrange(256) for _ in range(rng.choice([7, 7, 6, 3]))]).hex()])
            if rng.random() < 0.3:
                prof.insert(rng.randrange(len(prof) + 1), [rng.choice([0x0040, 0x0300, 0x0233]), "01"])
            rng.shuffle(prof)            # record order matters to a parser
        if prof is not None:
            p["caps_profile"] = prof
        return p
    sp.add("arbitrary_values", 3000 if tier == "quick" else 300_000, arbitrary_fn)

    def burst_fn(j, rng):
        # many rejected frames in one exchange, then the valid reply (one V3 segment; on V2 the packets of a burst
        # are separate exchanges' "first packets" - known finding first_packet_wins)
        version = 3
        opname = rng.choice(OPS)
        pos = rng.randrange(1, 40)
        return {"config": cfg(version), "target": opname, "which": rng.randrange(NREQ[opname]),
                "app": {"base": "honest", "edit": [["corrupt", pos, rng.randrange(1, 256), rng.random() < 0.5]],
                        "place": "many_then_good", "n": rng.choice([7, 8, 9, 15, 16, 17, 40])}}
    sp.add("bursts_of_rejected_frames", 600 if tier == "quick" else 60_000, burst_fn)

    def twice_fn(j, rng):
        opname = OPS[j % len(OPS)]
        p = {"config": cfg(3), "target": opname, "which": (j // len(OPS)) % NREQ[opname], "app": {}, "answered_twice": True}
        if rng.random() < 0.5:
            p["caps_profile"] = [[cid, v.hex()] for cid, v in appfault.FULL_CAPS[:rng.randint(3, len(appfault.FULL_CAPS))]]
        return p
    sp.add("request_answered_twice", 120 if tier == "quick" else 6000, twice_fn)

    PV = {0x0009: ["00", "01", "19", "32", "64", "ff"], 0x000A: ["00", "01", "19", "32", "64", "ff"],
          0x0018: ["00", "01", "02", "ff"], 0x0039: ["00", "01", "02"], 0x0042: ["00", "01", "02", "03", "ff"],
          0x0043: ["00", "01", "02", "03", "04", "05", "ff"], 0x0048: ["00", "01", "14", "28", "3c", "50", "64", "ff"],
          0x00E3: ["00", "01", "0100" + "00" * 10, "0101" + "00" * 10, "ff" * 12]}
    E_ZERO = "00" * 16
    ENERGIES = [E_ZERO, "00012345" + "00000000" + "00000150" + "012340" + "00", "ff" * 16, "00000001" + "00" * 12,
                "99999999" + "99999999" + "99999999" + "999999" + "99", "00" * 12 + "00000100"]

    def history_fn(j, rng):
        version = rng.choice([2, 3])
        pids = rng.sample(sorted(PV), rng.randint(1, 5))
        prof = [[pid, "01"] for pid in pids] + [[0x0216, rng.choice(["01", "02"])]] * (rng.random() < 0.7) + \
               [[0x021F, "02"]] * (rng.random() < 0.5) + [[0x0214, "01"]]
        rng.shuffle(prof)
        steps = []
        for _ in range(rng.randint(2, 5)):
            st = {"props": {str(pid): rng.choice(PV[pid]) for pid in pids}, "energy": rng.choice(ENERGIES),
                  "humidity": rng.choice(["37" + "00" * 15, "00" * 16, "ff" * 16])}
            if rng.random() < 0.3:
                st["op"] = rng.choice(["apply", "apply", "toggle"])
            steps.append(st)
        c = cfg(version)
        # units with the short (legacy) state report, in any mode
        c["state_len"] = rng.choice([24, 24, 16, 18, 19, 20, 22])
        from .c01 import rand_state, to_dev_state
        c["state"] = to_dev_state(rand_state(rng))
        if rng.random() < 0.4:
            c["state"]["mode"] = 6
        return {"config": c, "caps_profile": prof, "steps": steps}
    sp.add("well_formed_report_histories", 2500 if tier == "quick" else 300_000, history_fn)
    return sp
