"""C15 - capability records are interpreted independently and survive paging."""
from .common import REAL_BASE, STUB_BASE, Result, Space, SimDeadlock, SimStepLimit, rand_bytes, HOST, PORT
from .session import Session, snapshot
from simkit.seams import HarnessError
from simkit.world import capture

ID = "C15"
LEVEL = "exploration"
RULE = ("A case is an ordered list of up to 12 well-formed capability records (every known capability id with values "
        "0..255, unknown ids, zero-size records, sizes 1..10 incl. undersized TEMPERATURES records) and a set of split "
        "points. The reference device serves (a) each record alone, (b) the whole list in one B5 response, (c) the list "
        "split at each chosen point across a first (+additional flag) and a second response; the client runs "
        "get_capabilities() each time. Metamorphic oracle: raw capabilities of (b) = in-order merge of (a); (c) = (b) "
        "for every split, raw and public attributes. Part 'all_ids_values' sweeps every known id x value 0..255 next "
        "to fixed neighbours; 'random' draws lists. Distinct = distinct (list, splits); non-trivial = list has >= 2 "
        "records."
        " Later additions: parts 'ordered_pairs' and 'same_id_twice_all_size_pairs'; flag bytes 2, 3, 0x80, 0xFF; a device that answers only the documented page selectors; constant response message ids; a late duplicate of the additional page; a lost additional page followed by a complete query (compared with an object that saw the same contents unpaged).")
ASSUMPTIONS = [
    "white-box touch point: a spy on AirConditioner._update_capabilities records the merged raw capability mapping; "
    "the public supported_*/supports_* attributes are compared as well",
    "well-formed = every record's size byte equals the number of value bytes that follow; count = number of records",
]
COMPONENTS = {"real": REAL_BASE + ["AirConditioner.get_capabilities -> CapabilitiesResponse._parse_capabilities/merge -> "
                                   "_update_capabilities"], "stub": STUB_BASE}

KNOWN_IDS = [0x0009, 0x000A, 0x0018, 0x0030, 0x0032, 0x0033, 0x0039, 0x0040, 0x0042, 0x0043, 0x0048, 0x004B, 0x0051,
             0x0058, 0x0059, 0x0067, 0x00E3, 0x0091, 0x0093, 0x0094, 0x0098, 0x0210, 0x0212, 0x0213, 0x0214, 0x0215,
             0x0216, 0x0217, 0x0219, 0x021A, 0x0221, 0x021E, 0x021F, 0x0222, 0x0224, 0x0225, 0x022C, 0x0230, 0x0231,
             0x0232, 0x0233, 0x0234]
CAPS_ATTRS = ("supported_operation_modes", "supported_swing_modes", "supported_fan_speeds", "supports_custom_fan_speed",
              "supports_eco", "supports_turbo", "supports_freeze_protection", "supports_display_control",
              "supports_filter_reminder", "supports_purifier", "supports_humidity", "supports_target_humidity",
              "supports_self_clean", "supported_rate_selects", "supported_aux_modes", "supports_breeze_away",
              "supports_breeze_mild", "supports_breezeless", "supports_ieco", "supports_horizontal_swing_angle",
              "supports_vertical_swing_angle", "min_target_temperature", "max_target_temperature",
              "enable_energy_usage_requests")


def run(plan):
    s = Session(plan, max_iterations=20000)
    w = s.world
    dev = s.dev
    res = Result()
    recs = [(cid, bytes.fromhex(v)) for cid, v in plan["records"]]
    splits = plan["splits"]
    # units differ in the message id they put into responses (a running counter, or always the same value): with a
    # constant one, identical record lists give byte-identical responses
    dev.fixed_msg_id = bool(plan.get("fixed_msg_id"))

    async def query(pages, late_dup=False):
        dev.caps_pages = pages
        ac = w.ns.AC(ip=HOST, port=PORT, device_id=s.device_id)
        if not hasattr(ac, "_update_capabilities"):
            raise HarnessError("AirConditioner._update_capabilities spy point is gone")
        seen = []
        orig = ac._update_capabilities

        def spy(r):
            seen.append(dict(r.raw_capabilities))
            return orig(r)
        ac._update_capabilities = spy
        if s.version == 3:
            o = await capture(w, ac.authenticate(s.token.hex(), s.key.hex()))
            if o.kind != "ok":
                raise RuntimeError("handshake failed")
        o = await capture(w, ac.get_capabilities())
        if o.kind != "ok":
            return ("raised " + o.exc_type, None, None)

        def snap_now():
            return {a: ([int(x) for x in getattr(ac, a)] if isinstance(getattr(ac, a), list) else getattr(ac, a))
                    for a in CAPS_ATTRS}
        snap = snap_now()
        if late_dup and len(pages) > 1:
            # a late duplicate of the second page turns up in a later state exchange: what was learned stays
            from refmodel import acmodel
            body = acmodel.build_b5(pages[1][0], pages[1][1])
            dev.script = [{"pre": ["unsol_raw:" + body.hex()]}]
            await capture(w, ac.refresh())
            dev.script = []
            await capture(w, ac.refresh())
            snap2 = snap_now()
            if snap2 != snap:
                diff = {a: (snap[a], snap2[a]) for a in CAPS_ATTRS if snap[a] != snap2[a]}
                return ("changed its capabilities when a duplicate of the additional page arrived later", seen[-1] if seen else None, diff)
            w.fire("late_duplicate_of_additional_page")
        return ("ok", seen[-1] if seen else None, snap)

    async def main(w):
        singles = []
        for r in recs:
            st, raw, _snap = await query([([r], None)])
            if st != "ok":
                res.fail(f"get_capabilities {st} on a single record", f"{r[0]:#06x} {r[1].hex()}")
                return
            singles.append(raw or {})
        merged = {}
        for raw in singles:
            merged.update(raw)
        st, raw_full, snap_full = await query([(recs, plan.get("flag"))])
        if st != "ok":
            res.fail(f"get_capabilities {st} on the full list", "")
            return
        if (raw_full or {}) != merged:
            diff = {k: (merged.get(k), (raw_full or {}).get(k)) for k in set(merged) | set(raw_full or {})
                    if merged.get(k) != (raw_full or {}).get(k)}
            res.fail("capabilities of the list differ from the in-order merge of its records",
                     f"(merge, list) per key: {diff}")
            return
        for k in splits:
            k = k % (len(recs) + 1)
            if plan.get("lose_page2_first"):
                # history: the exchange for the additional page goes unanswered once; a later complete query must
                # still give the full set
                dev.caps_pages = [(recs[:k], plan.get("flag1", True)), (recs[k:], False)]
                ac0 = w.ns.AC(ip=HOST, port=PORT, device_id=s.device_id)
                if s.version == 3:
                    await capture(w, ac0.authenticate(s.token.hex(), s.key.hex()))
                dev.script = [{}, {"drop": True}, {"drop": True}, {"drop": True}]
                await capture(w, ac0.get_capabilities())
                dev.script = []
                o2 = await capture(w, ac0.get_capabilities())
                if o2.kind != "ok":
                    res.fail(f"get_capabilities raised {o2.exc_type} on a paged list", f"split {k}, retry after a lost page")
                    return
                snap_r = {a: ([int(x) for x in getattr(ac0, a)] if isinstance(getattr(ac0, a), list) else getattr(ac0, a))
                          for a in CAPS_ATTRS}
                # reference: an object with the same history of *contents* (first the first page's records alone,
                # then the complete list), each delivered in one response - capability updates are not required to
                # be independent of what the object had learned before, paging is required not to matter
                ref = w.ns.AC(ip=HOST, port=PORT, device_id=s.device_id)
                if s.version == 3:
                    await capture(w, ref.authenticate(s.token.hex(), s.key.hex()))
                dev.caps_pages = [(recs[:k], None)]
                await capture(w, ref.get_capabilities())
                dev.caps_pages = [(recs, plan.get("flag"))]
                await capture(w, ref.get_capabilities())
                snap_ref = {a: ([int(x) for x in getattr(ref, a)] if isinstance(getattr(ref, a), list) else getattr(ref, a))
                            for a in CAPS_ATTRS}
                if snap_r != snap_ref:
                    diff = {a: (snap_ref[a], snap_r[a]) for a in CAPS_ATTRS if snap_ref[a] != snap_r[a]}
                    res.fail("public capability attributes differ between one response and a paged delivery",
                             f"split {k}, complete query after one whose additional page was lost: {diff}")
                    return
                w.fire("additional_page_lost_then_complete_query")
            if plan.get("drop_first_page2"):
                # the first copy of the additional query (or its answer) is lost, the re-sent one is answered
                dev.script = [{}, {"drop": True}, {}]
                w.fire("additional_query_lost_once")
            st, raw_k, snap_k = await query([(recs[:k], plan.get("flag1", True)), (recs[k:], False)], late_dup=bool(plan.get("late_dup")))
            dev.script = []
            if st != "ok":
                res.fail(f"get_capabilities {st} on a paged list", f"split {k}: {snap_k if isinstance(snap_k, dict) and st.startswith('changed') else ''}")
                return
            if (raw_k or {}) != (raw_full or {}):
                diff = {kk: ((raw_full or {}).get(kk), (raw_k or {}).get(kk)) for kk in set(raw_full or {}) | set(raw_k or {})
                        if (raw_full or {}).get(kk) != (raw_k or {}).get(kk)}
                res.fail("capabilities differ between one response and a paged delivery", f"split {k}: (one, paged) {diff}")
                return
            if snap_k != snap_full:
                diff = {a: (snap_full[a], snap_k[a]) for a in CAPS_ATTRS if snap_full[a] != snap_k[a]}
                res.fail("public capability attributes differ between one response and a paged delivery", f"split {k}: {diff}")
                return
            w.fire("paged_delivery")

    try:
        w.run(main)
    except (SimDeadlock, SimStepLimit) as e:
        res.fail(f"liveness: {type(e).__name__}", str(e))
    res.take(w)
    res.key = (tuple((c, v) for c, v in plan["records"]), tuple(splits), plan.get("flag"), bool(plan.get("late_dup")), repr(plan.get("flag1")), bool(plan.get("lose_page2_first")), bool(plan.get("fixed_msg_id")), bool(plan.get("drop_first_page2")))
    res.nontrivial = len(recs) >= 2
    return res


def rand_record(rng):
    r = rng.random()
    if r < 0.62:
        cid = rng.choice(KNOWN_IDS)
        size = rng.choice([1, 1, 1, 1, 2, 3, rng.randint(1, 10)])
        if cid == 0x0225:
            size = rng.choice([7, 7, 6, 1, 2, 3, 5, 8, 10])
    elif r < 0.8:
        cid = rng.choice([0x0000, 0x0000, 0x0001, 0x00FF, 0x0211, 0x0300, 0xFFFF, 0x0041, rng.randrange(65536)])
        size = rng.randint(1, 10)
    elif r < 0.92:
        cid = rng.choice(KNOWN_IDS + [0x0300, 0x0000])
        size = 0
    else:
        cid = 0x0225
        size = rng.randint(1, 5)
    val = bytearray(rand_bytes(rng, size))
    if cid == 0x0225 and rng.random() < 0.25:
        # limits a unit may well report: all zero, zero for one mode (cool-only units), min above max
        val = bytearray(size)
        if rng.random() < 0.5:
            for i in range(0, min(size, 6), 2):
                if rng.random() < 0.5 and i + 1 < size:
                    val[i], val[i + 1] = rng.choice([(34, 60), (32, 32), (60, 34)])
        return [cid, bytes(val).hex()]
    if size and rng.random() < 0.7:
        val[0] = rng.choice([0, 1, 2, 3, 4, 5, 6, 7, 9, 10, 11, 12, 13, 100, rng.randrange(256)])
    return [cid, bytes(val).hex()]


def space(tier):
    sp = Space(ID)

    def sweep(j, rng):
        cid = KNOWN_IDS[(j // 256) % len(KNOWN_IDS)]
        v = j % 256
        size = 7 if cid == 0x0225 else 1
        val = bytes([v]) + bytes(size - 1)
        before = rand_record(rng)
        after = [rng.choice([0x0212, 0x0214, 0x0215, 0x0210, 0x0048]), bytes([rng.choice([0, 1, 2, 3])]).hex()]
        return {"config": {"version": 2}, "records": [before, [cid, val.hex()], after], "splits": [1, 2],
                "flag": rng.choice([None, False])}
    sp.add("all_ids_values", 256 * len(KNOWN_IDS) if tier == "thorough" else 256 * 4, sweep, exhaustive=(tier == "thorough"))

    npairs = len(KNOWN_IDS) ** 2

    def pairs(j, rng):
        # every ordered pair of known ids, both "on", split between them: rules that look at two records at once
        # (one capability superseding another) must give the same answer in one response and across pages
        a = KNOWN_IDS[(j % npairs) // len(KNOWN_IDS)]
        b = KNOWN_IDS[(j % npairs) % len(KNOWN_IDS)]
        v = [1, 1, 2, 3][(j // npairs) % 4] if j >= npairs else 1

        def val(cid, x):
            return (bytes([x]) + bytes(6 if cid == 0x0225 else 0)).hex()
        recs = [[a, val(a, v)], [b, val(b, 1)]]
        if rng.random() < 0.5:
            recs.insert(1, rand_record(rng))
        return {"config": {"version": 2}, "records": recs, "splits": list(range(len(recs) + 1)), "flag": None}
    sp.add("ordered_pairs", npairs * (1 if tier == "quick" else 4), pairs, exhaustive=True)

    TSIZES = [(7, 6), (8, 6), (10, 6), (6, 7), (7, 7), (6, 6), (7, 5), (5, 7), (9, 8)]

    def temp_pairs(j, rng):
        # the same record id twice (temperature limits), in every pairing of sizes and with the last byte 0 / 1:
        # the second record wins exactly as if it stood alone
        sa, sb = TSIZES[j % len(TSIZES)]
        k = j // len(TSIZES)

        def val(size, last):
            b = bytearray(rng.randrange(32, 64) for _ in range(size))
            if size >= 7:
                b[6] = last
            return bytes(b).hex()
        recs = [[0x0225, val(sa, k % 2)], [0x0225, val(sb, (k // 2) % 2)]]
        if (k // 4) % 2:
            recs.insert(1, rand_record(rng))
        if (k // 8) % 2:
            recs.insert(0, [0x0214, "01"])
        return {"config": {"version": 2}, "records": recs, "splits": list(range(len(recs) + 1)), "flag": None}
    sp.add("same_id_twice_all_size_pairs", len(TSIZES) * 16, temp_pairs, exhaustive=True)

    def rnd(j, rng):
        n = rng.randint(1, 12)
        recs = [rand_record(rng) for _ in range(n)]
        if rng.random() < 0.3:
            splits = list(range(0, n + 1))
        else:
            splits = sorted({rng.randrange(0, n + 1) for _ in range(rng.randint(1, 3))})
        return {"config": {"version": rng.choice([2, 2, 3])}, "records": recs, "splits": splits,
                "flag": rng.choice([None, False]), "late_dup": rng.random() < 0.3,
                # the flag byte announcing a further page: any non-zero value
                "flag1": rng.choice([True, True, 1, 2, 3, 0x80, 0xFF]), "lose_page2_first": rng.random() < 0.15,
                "fixed_msg_id": rng.random() < 0.5, "drop_first_page2": rng.random() < 0.15}
    sp.add("random", 2500 if tier == "quick" else 400_000, rnd)
    return sp


def simplify(plan):
    import json
    recs = plan["records"]
    for i in range(len(recs)):
        if len(recs) > 1:
            c = json.loads(json.dumps(plan))
            del c["records"][i]
            yield c
    if len(plan["splits"]) > 1:
        for i in range(len(plan["splits"])):
            c = json.loads(json.dumps(plan))
            del c["splits"][i]
            yield c
    if plan["splits"]:
        c = json.loads(json.dumps(plan))
        c["splits"] = []
        yield c
