"""C16 - property-protocol settings: sent once, correctly encoded, read back equal."""
import asyncio

from .common import REAL_BASE, STUB_BASE, Result, Space, SimDeadlock, SimStepLimit
from .session import Session
from refmodel import acmodel as M

ID = "C16"
LEVEL = "exploration"
RULE = ("A case is (protocol version, capability profile: breeze-control | legacy away-only | legacy breezeless-only | "
        "legacy both | none; rate select none/2-level/5-level; iECO; swing angles; self-clean; initial property store, "
        "then up to 10 operations from {each property setter with each enum value, beep, apply, refresh, "
        "start_self_clean, device-side store change}). Wire oracle on every apply (exactly one B0 with exactly the ids "
        "changed since the previous apply + buzzer, values in the vendor encoding, or no B0 when nothing changed); "
        "read-back oracle after every refresh; at most one breeze mode at every observation. Distinct = distinct "
        "(profile, history); non-trivial = at least one property setter followed by an apply, or a refresh of a "
        "non-default store."
        " Later additions: lost acknowledgements, apply cancelled while reconnecting, unanswered property queries, refused writes (result 0x11), extended state reports (22-46 bytes), volunteered property records (also flagged as failed), a setter called between the two capability pages of a re-query, a bystander pair.")
ASSUMPTIONS = [
    "vendor value encodings: 0x42 breeze-away 2/1, 0x43 breeze control 1..4, 0x18 breezeless 1/0, 0xE3 iECO set = "
    "[frame, number, switch, 10 x 0] / report = [number, switch, ...], 0x48 rate, 0x09/0x0A angle, 0x39 self clean 1, "
    "0x1A buzzer 1/0 (Lua property sections)",
    "on legacy devices the device itself deactivates the other breeze mode when one is activated",
    "setters are generated for properties the advertised profile supports (plus breeze setters, which map to the "
    "advertised breeze id)",
]
COMPONENTS = {"real": REAL_BASE + ["AirConditioner property setters/apply/_apply_properties/refresh/_update_state, "
                                   "SetPropertiesCommand, GetPropertiesCommand, PropertiesResponse, PropertyId.encode/decode"],
              "stub": STUB_BASE}

ANGLES = [0, 1, 25, 50, 75, 100]
RATES2 = [100, 75, 50]
RATES5 = [100, 80, 60, 40, 20, 1]


def profile_caps(p):
    recs = [(0x0214, "01"), (0x0215, "01")]
    if p["breeze"] == "control":
        recs.append((0x0043, "01"))
    if p["breeze"] in ("away", "both"):
        recs.append((0x0042, "01"))
    if p["breeze"] in ("less", "both"):
        recs.append((0x0018, "01"))
    if p["rate"] == 2:
        recs.append((0x0048, "01"))
    if p["rate"] == 5:
        recs.append((0x0048, "02"))
    if p["ieco"]:
        recs.append((0x00E3, "01"))
    if p["angles"]:
        recs += [(0x0009, "01"), (0x000A, "01")]
    if p["clean"]:
        recs.append((0x0039, "01"))
    return recs


def supported_ids(p):
    ids = set()
    if p["breeze"] == "control":
        ids.add(0x0043)
    if p["breeze"] in ("away", "both"):
        ids.add(0x0042)
    if p["breeze"] in ("less", "both"):
        ids.add(0x0018)
    if p["rate"]:
        ids.add(0x0048)
    if p["ieco"]:
        ids.add(0x00E3)
    if p["angles"]:
        ids |= {0x0009, 0x000A}
    if p["clean"]:
        ids.add(0x0039)
    return ids


def breeze_id(p, which):
    if which == "mild":
        return 0x0043
    if p["breeze"] == "control":
        return 0x0043
    return 0x0042 if which == "away" else 0x0018


def expected_value(ac, pid):
    """Vendor encoding of the getter's value at apply time."""
    if pid == 0x0009:
        return bytes([int(ac.vertical_swing_angle)])
    if pid == 0x000A:
        return bytes([int(ac.horizontal_swing_angle)])
    if pid == 0x0048:
        return bytes([int(ac.rate_select)])
    if pid == 0x0042:
        return bytes([2 if ac.breeze_away else 1])
    if pid == 0x0018:
        return bytes([1 if ac.breezeless else 0])
    if pid == 0x0043:
        return bytes([2 if ac.breeze_away else 3 if ac.breeze_mild else 4 if ac.breezeless else 1])
    if pid == 0x00E3:
        return bytes([0, 1, 1 if ac.ieco else 0]) + bytes(10)
    raise KeyError(pid)


def store_view(p, store):
    """What the getters must show after refreshing against `store` (only supported ids are queried)."""
    ids = supported_ids(p)
    exp = {}
    if 0x0009 in ids:
        exp["vertical_swing_angle"] = M.prop_store_value_for_read(0x0009, store)[0]
    if 0x000A in ids:
        exp["horizontal_swing_angle"] = M.prop_store_value_for_read(0x000A, store)[0]
    if 0x0048 in ids:
        exp["rate_select"] = M.prop_store_value_for_read(0x0048, store)[0]
    if 0x00E3 in ids:
        exp["ieco"] = bool(M.prop_store_value_for_read(0x00E3, store)[1])
    if 0x0039 in ids:
        exp["self_clean_active"] = bool(M.prop_store_value_for_read(0x0039, store)[0])
    if 0x0043 in ids:
        v = M.prop_store_value_for_read(0x0043, store)[0]
        exp["breeze_away"], exp["breeze_mild"], exp["breezeless"] = v == 2, v == 3, v == 4
    else:
        away = less = None
        if 0x0042 in ids:
            away = M.prop_store_value_for_read(0x0042, store)[0] == 2
        if 0x0018 in ids:
            less = bool(M.prop_store_value_for_read(0x0018, store)[0])
        if away is not None:
            exp["breeze_away"] = away
        if less is not None:
            exp["breezeless"] = less
        if away is not None or less is not None:
            exp["breeze_mild"] = False
    return exp


def attr_ids(p, attr):
    """Property ids whose report decides the getter `attr` under profile p."""
    ids = supported_ids(p)
    m = {"vertical_swing_angle": {0x0009}, "horizontal_swing_angle": {0x000A}, "rate_select": {0x0048},
         "ieco": {0x00E3}, "self_clean_active": {0x0039}}
    if attr in m:
        return m[attr] & ids
    return {0x0043, 0x0042, 0x0018} & ids        # the three breeze flags follow every breeze id the unit has


def stale_value(view, pid):
    """Vendor encoding of what the getters show right after the object processed a report with this view."""
    import types
    try:
        return expected_value(types.SimpleNamespace(**view), pid)
    except (KeyError, AttributeError):
        return None


def run(plan):
    s = Session(plan, max_iterations=8000)
    w = s.world
    dev = s.dev
    res = Result()
    p = plan["profile"]
    did = {"set_apply": 0, "refresh": 0}

    def one_breeze(ac, where):
        n = sum(1 for x in (ac.breeze_away, ac.breeze_mild, ac.breezeless) if x)
        if n > 1:
            res.fail("more than one breeze mode reported active", where)
            return False
        return True

    dev.volunteered_props = [tuple([vp[0], vp[1], bytes.fromhex(vp[2])] + list(vp[3:])) for vp in plan.get("volunteered", [])]

    async def main(w):
        ac = s.make_clients()[0]
        if s.version == 3:
            o = await s.do({"op": "auth"})
            if o.kind != "ok":
                res.fail(f"genuine handshake raised {o.exc_type}", repr(o.exc))
                return
        o = await s.do({"op": "caps"})
        if o.kind != "ok":
            res.fail(f"get_capabilities raised {o.exc_type}", repr(o.exc))
            return
        changed = set()
        stale = None        # a late duplicate of a property report that the object has not consumed yet
        for op in plan["ops"]:
            kind = op["op"]
            if stale is not None and stale.get("gone"):
                stale = None
            if kind == "set":
                attr, val = op["attr"], op["value"]
                s.set_attr(ac, attr, val)
                if attr in ("breeze_away", "breeze_mild", "breezeless"):
                    changed.add(breeze_id(p, attr.split("_")[-1] if attr != "breezeless" else "less"))
                else:
                    changed.add({"horizontal_swing_angle": 0x000A, "vertical_swing_angle": 0x0009,
                                 "rate_select": 0x0048, "ieco": 0x00E3}[attr])
                if not one_breeze(ac, f"after setting {attr}"):
                    return
            elif kind == "recaps_setter":
                # the capabilities are queried again (two pages this time, the second one slow); a setter is called
                # from another task while the second page is awaited
                recs = [(cid, bytes.fromhex(v)) for cid, v in profile_caps(p)]
                late = [r for r in recs if r[0] in (0x0043, 0x0042, 0x0018, 0x0048, 0x00E3)] or recs[-1:]
                early = [r for r in recs if r not in late]
                saved = dev.caps_pages
                dev.caps_pages = [(early, True), (late, False)]
                dev.script = [{}, {"lat": op.get("lat", 0.5)}]
                from simkit.world import capture
                t = w.loop.create_task(capture(w, ac.get_capabilities()))
                await asyncio.sleep(op.get("at", 0.25))
                attr, val = op["attr"], op["value"]
                s.set_attr(ac, attr, val)
                if attr in ("breeze_away", "breeze_mild", "breezeless"):
                    changed.add(breeze_id(p, attr.split("_")[-1] if attr != "breezeless" else "less"))
                else:
                    changed.add({"horizontal_swing_angle": 0x000A, "vertical_swing_angle": 0x0009,
                                 "rate_select": 0x0048, "ieco": 0x00E3}[attr])
                o = await t
                dev.script = []
                dev.caps_pages = saved
                if o.kind != "ok":
                    res.fail(f"get_capabilities raised {o.exc_type}", repr(o.exc))
                    return
                w.fire("setter_called_between_two_capability_pages")
                if stale is not None and w.loop.time() >= stale["at"]:
                    stale = None
            elif kind == "beep":
                ac.beep = op["value"]
            elif kind == "dev_store":
                dev.props[op["pid"]] = bytes.fromhex(op["value"])
                w.fire("device_side_store_change")
            elif kind in ("apply", "selfclean"):
                n0 = len(dev.prop_sets)
                want_ids = set(changed)
                want = {}
                if kind == "apply":
                    for pid in want_ids:
                        want[pid] = expected_value(ac, pid)
                else:
                    want_ids = {0x0039}
                    want[0x0039] = b"\x01"
                want[0x001A] = bytes([1 if ac.beep else 0])
                aop = {"op": kind}
                if op.get("lose_ack") and kind == "apply" and changed:
                    # the acknowledgement of the property write is lost (all transmissions unanswered)
                    aop["net"] = [{}, {"drop": True}, {"drop": True}, {"drop": True}]
                if op.get("nak") and kind == "apply" and changed:
                    # the unit refuses these writes (execution-error result in its acknowledgement)
                    dev.nak_props = set(changed)
                    w.fire("property_write_refused_by_unit")
                cancel_connect = bool(op.get("cancel_in_connect") and kind == "apply" and changed)
                if cancel_connect:
                    # the device closes the connection after answering the state command; the property write has to
                    # reconnect first, the connect is slow, and the caller's own timeout cancels apply() meanwhile
                    aop["net"] = [{"close": "after", "same_tick": True}]
                    aop["conn"] = [["accept", 0.5]]
                    aop["cancel"] = 0.25
                nlog = len(dev.log)
                o = await s.do(aop)
                dev.nak_props = set()
                if cancel_connect:
                    if o.kind not in ("cancelled", "ok"):
                        res.fail(f"cancelled apply raised {o.exc_type}", repr(o.exc))
                        return
                    w.fire("apply_cancelled_while_reconnecting")
                    await asyncio.sleep(1.0)
                    if o.kind == "cancelled" and not dev.prop_sets[n0:]:
                        # nothing was transmitted: the settings are still pending for the next apply
                        continue
                if o.kind != "ok":
                    res.fail(f"{kind} raised {o.exc_type}", repr(o.exc))
                    return
                sets = dev.prop_sets[n0:]
                if aop.get("net"):
                    # retransmissions of one command (identical frames) count once
                    frames = [e["frame"] for e in dev.log[nlog:] if e["kind"] == "request" and e["body"][:1] == b"\xb0"]
                    if len(set(frames)) == 1:
                        sets = sets[:1]
                    w.fire("property_ack_lost")
                if kind == "apply" and not changed:
                    if sets:
                        res.fail("apply with no changed property sent a property write", repr(sets))
                        return
                else:
                    if len(sets) != 1:
                        res.fail(f"{kind} after property changes sent {len(sets)} property writes instead of one",
                                 f"changed {sorted(want_ids)}")
                        return
                    got = sets[0][1]
                    ids = [pid for pid, _v in got]
                    if len(ids) != len(set(ids)) or set(ids) != set(want):
                        res.fail("property write does not carry exactly the changed ids plus buzzer",
                                 f"sent {[hex(i) for i in ids]} expected {[hex(i) for i in sorted(want)]}")
                        return
                    for pid, v in got:
                        if bytes(v) != want[pid] and stale is not None and w.loop.time() >= stale["at"] \
                                and bytes(v) == stale_value(stale["view"], pid):
                            # the late duplicate of an older report was waiting in the connection and was processed
                            # by this apply's state exchange before the write was built: the object showed the
                            # reported value again at that moment, and that is the value it sent (correctly encoded)
                            w.fire("late_duplicate_report_processed_before_the_write_was_built")
                            continue
                        if bytes(v) != want[pid]:
                            res.fail(f"property 0x{pid:04x} value encoding differs from the vendor encoding",
                                     f"sent {bytes(v).hex()} expected {want[pid].hex()}")
                            return
                    if kind == "apply":
                        did["set_apply"] += 1
                if kind == "apply":
                    changed.clear()
                if stale is not None and w.loop.time() >= stale["at"]:
                    stale["gone"] = True
                if dev.violations:
                    res.fail("device-side strict parser rejected a command: " + dev.violations[0][1], "")
                    return
                if not one_breeze(ac, f"after {kind}"):
                    return
            elif kind == "idle":
                await asyncio.sleep(op["d"])
            elif kind == "refresh":
                rop = {"op": "refresh"}
                if op.get("lose_props") and supported_ids(p):
                    # the property query of this poll goes unanswered (all three transmissions)
                    rop["net"] = [{}, {"drop": True}, {"drop": True}, {"drop": True}]
                    o = await s.do(rop)
                    if o.kind != "ok":
                        res.fail(f"refresh raised {o.exc_type}", repr(o.exc))
                        return
                    w.fire("property_query_unanswered")
                    if stale is not None and w.loop.time() >= stale["at"]:
                        stale = None
                    continue
                if op.get("dup_props_late") and supported_ids(p):
                    # the device re-sends its property report a few seconds later (a late duplicate)
                    rop["net"] = [{}, {"dup_late": op["dup_props_late"]}]
                held = {}
                if op.get("empty") and supported_ids(p):
                    # the unit answers some of the queried properties with an empty record this once: the object
                    # keeps what it showed, and goes on querying / writing these ids as before
                    emp = set(op["empty"]) & supported_ids(p)
                    dev.empty_props_once = set(emp)
                    shown_now = store_view(p, {})
                    for attr in shown_now:
                        if attr_ids(p, attr) & emp:
                            held[attr] = getattr(ac, attr)
                o = await s.do(rop)
                if o.kind != "ok":
                    res.fail(f"refresh raised {o.exc_type}", repr(o.exc))
                    return
                late_view = None
                if stale is not None and w.loop.time() >= stale["at"]:
                    late_view = stale["view"]        # the late copy was processed by this poll's state exchange
                    stale = None
                if rop.get("net"):
                    stale = {"at": w.loop.time() + op["dup_props_late"], "view": store_view(p, dev.props)}
                did["refresh"] += 1
                exp = store_view(p, dev.props)

                def same(got, v):
                    return (got == v and isinstance(got, bool)) if isinstance(v, bool) else (int(got) == int(v))
                for attr, v in exp.items():
                    got = getattr(ac, attr)
                    if attr in held:
                        # no value in this poll: what the object showed before it, or what a late copy of an older
                        # report (processed first) made it show
                        v = held[attr]
                        ok = same(got, v) or (late_view is not None and attr in late_view and same(got, late_view[attr]))
                    else:
                        ok = same(got, v)
                    if not ok:
                        res.fail(f"{attr} read back differs from the device's value",
                                 f"got {got!r} expected {v!r}; store { {hex(k): x.hex() for k, x in dev.props.items()} }")
                        return
                if not one_breeze(ac, "after refresh"):
                    return

    try:
        w.run(s.with_bystander(main, res))
    except (SimDeadlock, SimStepLimit) as e:
        res.fail(f"liveness: {type(e).__name__}", str(e))
    res.take(w)
    res.add_fired(dev.fired)
    res.key = res.digest
    res.nontrivial = did["set_apply"] > 0 or (did["refresh"] > 0 and bool(plan["config"].get("props")))
    return res


# ---------------------------------------------------------------------------------------------
def gen(j, rng):
    p = {"breeze": rng.choice(["control", "away", "less", "both", "both", "none"]), "rate": rng.choice([0, 2, 5]),
         "ieco": rng.random() < 0.6, "angles": rng.random() < 0.6, "clean": rng.random() < 0.5}
    ids = supported_ids(p)
    store = {}
    if rng.random() < 0.6:
        for pid in ids:
            if pid in (0x0009, 0x000A):
                store[str(pid)] = bytes([rng.choice(ANGLES)]).hex()
            elif pid == 0x0048:
                store[str(pid)] = bytes([rng.choice(RATES2 if p["rate"] == 2 else RATES5)]).hex()
            elif pid == 0x0043:
                store[str(pid)] = bytes([rng.randint(1, 4)]).hex()
            elif pid == 0x00E3:
                store[str(pid)] = (bytes([1, rng.randint(0, 1)]) + bytes(10)).hex()
            elif pid == 0x0039:
                store[str(pid)] = bytes([rng.randint(0, 1)]).hex()
        if p["breeze"] in ("away", "both", "less"):
            m = rng.choice(["off", "away", "less"])
            if 0x0042 in ids:
                store[str(0x0042)] = "02" if m == "away" else "01"
            if 0x0018 in ids:
                store[str(0x0018)] = "01" if (m == "less") else "00"
    setters = []
    if p["angles"]:
        setters += [("horizontal_swing_angle", ANGLES), ("vertical_swing_angle", ANGLES)]
    if p["rate"]:
        setters.append(("rate_select", RATES2 if p["rate"] == 2 else RATES5))
    if p["ieco"]:
        setters.append(("ieco", [True, False]))
    if p["breeze"] in ("control", "away", "both"):
        setters.append(("breeze_away", [True, False]))
    if p["breeze"] in ("control", "less", "both"):
        setters.append(("breezeless", [True, False]))
    if p["breeze"] == "control":
        setters.append(("breeze_mild", [True, False]))
    unsupported = []
    if not p["angles"]:
        unsupported += [("horizontal_swing_angle", ANGLES), ("vertical_swing_angle", ANGLES)]
    if not p["rate"]:
        unsupported.append(("rate_select", RATES5))
    if not p["ieco"]:
        unsupported.append(("ieco", [True, False]))
    ops = []
    for _ in range(rng.randint(2, 10)):
        r = rng.random()
        if r < 0.04 and unsupported:
            # a setting the unit did not advertise: it is written once all the same (with a warning) and then
            # forgotten like every other pending setting
            attr, vals = rng.choice(unsupported)
            ops.append({"op": "set", "attr": attr, "value": rng.choice(vals)})
        elif r < 0.45 and setters:
            attr, vals = rng.choice(setters)
            ops.append({"op": "set", "attr": attr, "value": rng.choice(vals)})
        elif r < 0.52:
            ops.append({"op": "beep", "value": rng.random() < 0.5})
        elif r < 0.75:
            rr = rng.random()
            ops.append({"op": "apply", "lose_ack": True} if rr < 0.15 else
                       {"op": "apply", "cancel_in_connect": True} if rr < 0.27 else {"op": "apply"})
        elif r < 0.92:
            ops.append({"op": "refresh"})
        elif r < 0.96 and p["clean"]:
            ops.append({"op": "selfclean"})
        elif ids:
            pid = rng.choice(sorted(ids - {0x00E3, 0x0039}) or [0x0039])
            if pid in (0x0009, 0x000A):
                v = bytes([rng.choice(ANGLES)])
            elif pid == 0x0048:
                v = bytes([rng.choice(RATES5 if p["rate"] == 5 else RATES2)])
            elif pid == 0x0043:
                v = bytes([rng.randint(1, 4)])
            elif pid == 0x0042:
                v = bytes([rng.choice([1, 2])])
            else:
                v = bytes([rng.randint(0, 1)])
            if pid in (0x0042, 0x0018) and p["breeze"] == "both":
                continue        # keep the device-side exclusivity invariant
            ops.append({"op": "dev_store", "pid": pid, "value": v.hex()})
    if setters and rng.random() < 0.25:
        # late duplicate of a property report: refresh, change + apply before it arrives, idle, refresh again
        attr, vals = rng.choice(setters)
        ops += [{"op": "apply"}, {"op": "refresh", "dup_props_late": 3.0}, {"op": "set", "attr": attr, "value": rng.choice(vals)},
                {"op": "apply"}, {"op": "idle", "d": 4.0}, {"op": "refresh"}]
    if rng.random() < 0.12 and ids:
        # isolated hiccups over the life of the object: the property query goes unanswered now and then
        n = rng.randint(2, 4)
        for k in range(n):
            ops.insert(rng.randrange(0, len(ops) + 1), {"op": "refresh", "lose_props": True})
        pid = rng.choice(sorted(ids - {0x00E3, 0x0039, 0x0042, 0x0018}) or [0x0039])
        v = bytes([rng.choice(ANGLES)]) if pid in (0x0009, 0x000A) else bytes([rng.choice(RATES5 if p["rate"] == 5 else RATES2)]) \
            if pid == 0x0048 else bytes([rng.randint(1, 4)]) if pid == 0x0043 else bytes([rng.randint(0, 1)])
        ops += [{"op": "apply"}, {"op": "dev_store", "pid": pid, "value": v.hex()}]
    if rng.random() < 0.12 and setters:
        attr, vals = rng.choice(setters)
        ops.insert(rng.randrange(0, len(ops) + 1), {"op": "recaps_setter", "attr": attr, "value": rng.choice(vals),
                                                    "lat": rng.choice([0.3, 0.5, 1.0]), "at": rng.choice([0.05, 0.25])})
    if rng.random() < 0.12 and setters:
        # the unit refuses one property write; later writes are encoded as before
        attr, vals = rng.choice(setters)
        ops.insert(rng.randrange(0, len(ops) + 1), {"op": "apply", "nak": True})
        ops.insert(0, {"op": "set", "attr": attr, "value": rng.choice(vals)})
        attr2, vals2 = rng.choice(setters)
        ops += [{"op": "refresh"}, {"op": "set", "attr": attr2, "value": rng.choice(vals2)}]
    if rng.random() < 0.12 and ids:
        # one poll in which the unit answers some properties with an empty record; a setter later on
        emp = set(rng.sample(sorted(ids), rng.randint(1, len(ids))))
        if p["breeze"] == "both" and emp & {0x0042, 0x0018}:
            emp |= {0x0042, 0x0018}
        pos = rng.randrange(0, len(ops) + 1)
        ops.insert(pos, {"op": "refresh", "empty": sorted(emp)})
        if setters:
            attr, vals = rng.choice(setters)
            ops.insert(rng.randrange(pos + 1, len(ops) + 1), {"op": "set", "attr": attr, "value": rng.choice(vals)})
    ops += [{"op": "apply"}, {"op": "refresh"}, {"op": "apply"}]
    cfg = {"version": rng.choice([2, 2, 3]), "caps_pages": [[profile_caps(p), None]], "props": store}
    if rng.random() < 0.15:
        cfg["bystander"] = {"version": rng.choice([2, 3]), "period": rng.choice([0.11, 0.7]), "max_rounds": 25}
    cfg["state_len"] = rng.choice([24, 24, 22, 30, 46])           # units with the extended state report
    plan = {"config": cfg, "profile": p, "ops": ops}
    if rng.random() < 0.2:
        # the unit volunteers properties this client knows of but does not use, anywhere in its replies
        plan["volunteered"] = [[rng.randrange(8), rng.choice([0x0015, 0x004B, 0x021E, 0x0227, 0x0201]), rng.choice(["00", "01", "32"]),
                                rng.choice([0x00, 0x00, 0x10, 0x11])] for _ in range(rng.randint(1, 2))]
    return plan


def space(tier):
    sp = Space(ID)
    sp.add("histories", 16000 if tier == "quick" else 500_000, gen)
    return sp


def simplify(plan):
    import json
    if plan["config"].get("props"):
        for k in list(plan["config"]["props"]):
            c = json.loads(json.dumps(plan))
            c["config"]["props"].pop(k)
            yield c
