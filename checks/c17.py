"""C17 - discovery reports each replying device with exactly its advertised identity."""
from .common import REAL_BASE, STUB_BASE, Result, Space, SimDeadlock, SimStepLimit, World, codec, rand_bytes
from refmodel.hosts import RefHost, good_reply
from simkit.world import capture

ID = "C17"
LEVEL = "exploration"
RULE = ("A case is (1-3 hosts answering the discovery probe with well-formed V2 or V3 replies built by the reference "
        "codec: 48-bit device id incl. boundary values, port 1..65535, 32-char serial number, name net_<type>_<suffix> "
        "with every appliance type byte in either letter case, reported IP equal to or different from the source, "
        "reply from source port 6445 or another; Discover.discover(auto_connect=False) broadcast or "
        "discover_single(host) by address or by a host name that resolves to it; suffixes with further underscores, "
        "dashes, spaces; discovery_packets 1..4). Each host answers only a probe that the reference codec "
        "verifies as the well-formed signed probe, and records to which ports and how often it was sent. Part "
        "'type_bytes' enumerates all 256 appliance type bytes x 2 letter cases x 2 versions; 'random' draws the rest. "
        "Distinct = distinct plan; non-trivial = every case."
        " Later additions: auto-connect against units that answer slowly / never / refuse / are unreachable (plain OSError), part 'two_event_loops_in_one_process'.")
ASSUMPTIONS = [
    "discovery reply envelope as calibrated against the two captured replies (V2 and V3)",
    "the probe real devices answer = the captured 72-byte signed packet format (marker, 0x0111, LE length, 0x0092, "
    "zero header, 16-byte body, valid MD5 sign); hosts answer only then",
    "order of the returned list is unspecified (task set): compared as a mapping by address",
]
COMPONENTS = {"real": REAL_BASE + ["Discover.discover/discover_single, _DiscoverProtocol, _get_device_version/_get_device_info/"
                                   "_get_device_class, Device/AirConditioner construction"],
              "stub": STUB_BASE + ["UDP segment and responding hosts (RefHost + reference discovery codec)"]}

SN_CHARS = "0123456789ABCDEFGHIJKLMNOPQRSTUVWXYZ"


def run_two_loops(plan):
    """Two discovery runs in one process, each under its own event loop (two asyncio.run() calls of a script, a
    loop per test case): the second must report what the first did."""
    res = Result()
    reports = []
    w = None
    for rnd in range(plan.get("rounds", 2)):
        w = World(seed=plan.get("seed", 0), max_iterations=20000)
        if rnd > 0:
            w.seams.same_process = True
        w.seams.keep_process_state = True
        from refmodel.device import RefDevice
        for h in plan["hosts"]:
            data = good_reply(2, h["device_id"], h["ip"], h["port"], h["sn"], h["name"])
            w.net.add_udp_host(h["ip"], RefHost(h["ip"], [(h.get("delay", 0.05), 6445, data)]))
            d = RefDevice(version=2, device_id=h["device_id"])
            d.default_directive = {"lat": h.get("tcp_lat", 0.3)}
            w.net.listen(h["ip"], h["port"], d)
        out = {}

        async def main(w):
            o = await capture(w, w.ns.discover.Discover.discover(auto_connect=True))
            out["o"] = o
        try:
            w.run(main)
        except (SimDeadlock, SimStepLimit) as e:
            res.fail(f"liveness: {type(e).__name__}", str(e))
            break
        o = out["o"]
        if o.kind != "ok":
            res.fail(f"discover raised {o.exc_type}", f"round {rnd + 1} in the same process: {o.exc!r}")
            break
        got = sorted((d.ip, d.id, bool(d.online)) for d in o.value)
        want = sorted((h["ip"], h["device_id"], True) for h in plan["hosts"])
        if got != want:
            res.fail("set of reported addresses differs from the replying hosts", f"round {rnd + 1}: {got[:3]}... vs {want[:3]}...")
            break
        reports.append(got)
    # leave the process clean for the next run
    from simkit import seams as _seams
    _seams._reset_class_state()
    res.take(w)
    res.fired["second_event_loop_in_one_process"] = 1
    res.fired["auto_connect_v2"] = len(plan["hosts"])
    res.key = ("two_loops", len(plan["hosts"]), plan.get("seed"))
    res.nontrivial = True
    return res


def run(plan):
    if plan.get("mode") == "two_loops":
        return run_two_loops(plan)
    w = World(seed=plan.get("seed", 0), max_iterations=5000)
    res = Result()
    hosts = {}
    tcp = {}
    for h in plan["hosts"]:
        data = good_reply(h["version"], h["device_id"], h["inner_ip"], h["port"], h["sn"], h["name"])
        hosts[h["ip"]] = RefHost(h["ip"], [(h.get("delay", 0.05), h.get("src_port", 6445), data)],
                                 errors=[tuple(e) for e in h.get("errors", [])])
        w.net.add_udp_host(h["ip"], hosts[h["ip"]])
        if plan.get("auto") and h.get("tcp") in ("ok", "slow", "silent", "hang", "unreachable", "emfile"):
            from refmodel.device import RefDevice
            d = RefDevice(version=2, device_id=h["device_id"])
            if h["tcp"] == "slow":
                d.default_directive = {"lat": 1.9}
            elif h["tcp"] == "silent":
                d.default_directive = {"drop": True}
            elif h["tcp"] == "hang":
                d.conn_script = [["hang", 0]] * 4        # SYNs go unanswered: the 5 s connect timeout runs out
            elif h["tcp"] == "unreachable":
                d.conn_script = [["oserror:113", 0.003]] * 4   # the device stopped answering ARP after its UDP reply
            elif h["tcp"] == "emfile":
                d.conn_script = [["oserror:24", 0.0]] * 4      # the prober ran out of file descriptors
            w.net.listen(h["ip"], h["port"], d)
            tcp[h["ip"]] = d
    auto = bool(plan.get("auto"))

    async def main(w):
        D = w.ns.discover.Discover
        npk = plan.get("packets", 3)
        if plan.get("single"):
            target = plan["single"]
            name = target
            if plan.get("by_name") and target in hosts:
                # discover_single() takes "hostname or IP": the probe goes to a name, the reply comes from its address
                name = "ac-" + target.replace(".", "-") + ".lan"
                w.net.dns[name] = target
                w.fire("target_by_host_name")
            o = await capture(w, D.discover_single(name, auto_connect=auto, discovery_packets=npk))
            if o.kind != "ok":
                res.fail(f"discover_single raised {o.exc_type}", repr(o.exc))
                return
            devs = [o.value] if o.value is not None else []
            expect_ips = [target] if target in hosts else []
        else:
            o = await capture(w, D.discover(auto_connect=auto, discovery_packets=npk))
            if o.kind != "ok":
                res.fail(f"discover raised {o.exc_type}", repr(o.exc))
                return
            devs = list(o.value)
            expect_ips = list(hosts)
        # ---- probe
        for ip, host in hosts.items():
            if plan.get("single") and ip != plan["single"]:
                if host.probes:
                    res.fail("discover_single sent probes to a host other than the target", ip)
                    return
                continue
            bad = [p for p in host.probes if not p[2]]
            if bad:
                res.fail("discovery probe is not the well-formed signed probe devices answer", "")
                return
            per_port = {}
            for _t, port, _ok in host.probes:
                per_port[port] = per_port.get(port, 0) + 1
            if per_port != {6445: npk, 20086: npk}:
                res.fail("probe not sent `discovery_packets` times to each of ports 6445 and 20086", repr(per_port))
                return
        # ---- identity
        by_ip = {}
        for d in devs:
            if d.ip in by_ip:
                res.fail("two devices reported for one address", d.ip)
                return
            by_ip[d.ip] = d
        if sorted(by_ip) != sorted(expect_ips):
            res.fail("set of reported addresses differs from the replying hosts", f"{sorted(by_ip)} vs {sorted(expect_ips)}")
            return
        AC = w.ns.AC
        for h in plan["hosts"]:
            if h["ip"] not in by_ip:
                continue
            d = by_ip[h["ip"]]
            want = {"id": h["device_id"], "port": h["port"], "sn": h["sn"], "name": h["name"],
                    "type": int(h["name"].split("_")[1], 16), "version": h["version"], "ip": h["ip"]}
            got = {"id": d.id, "port": d.port, "sn": d.sn, "name": d.name, "type": int(d.type), "version": d.version, "ip": d.ip}
            if got != want:
                diff = {k: (got[k], want[k]) for k in want if got[k] != want[k]}
                res.fail("reported identity differs from the advertised one: " + sorted(diff)[0], repr(diff))
                return
            if (want["type"] == 0xAC) != isinstance(d, AC):
                res.fail("device class does not match the appliance type", f"type {want['type']:#x} -> {type(d).__name__}")
                return
            if not auto and (d.online or d.token is not None):
                res.fail("auto_connect=False device was contacted", "")
                return
            if auto and h.get("tcp") == "ok" and want["type"] == 0xAC and not d.online:
                res.fail("auto_connect=True: reachable air conditioner not refreshed", h["ip"])
                return
        if not auto and w.net.conns:
            res.fail("auto_connect=False opened TCP connections", "")

    try:
        w.run(main)
    except (SimDeadlock, SimStepLimit) as e:
        res.fail(f"liveness: {type(e).__name__}", str(e))
    res.take(w)
    res.key = res.digest
    res.nontrivial = True
    if any(h["inner_ip"] != h["ip"] for h in plan["hosts"]):
        res.fired["reported_ip_differs_from_source"] = 1
    if any(h.get("src_port", 6445) != 6445 for h in plan["hosts"]):
        res.fired["udp_other_port"] = 1
    if w.net.stats.get("udp_error_received"):
        res.fired["udp_error_received"] = w.net.stats["udp_error_received"]
    if plan.get("auto"):
        res.fired["auto_connect_v2"] = 1
    return res


def rand_host(rng, idx, type_byte=None, upper=None, version=None):
    ip = f"192.168.{rng.randrange(0, 256)}.{10 + idx}"
    t = rng.choice([0xAC, 0xAC, 0xA1, 0xDB, 0x00, 0xFF, rng.randrange(256)]) if type_byte is None else type_byte
    upper = rng.random() < 0.5 if upper is None else upper
    ts = f"{t:02X}" if upper else f"{t:02x}"
    suffix = "".join(rng.choice("0123456789ABCDEF") for _ in range(rng.choice([4, 4, 1, 8])))
    if rng.random() < 0.15:
        suffix += rng.choice(["_2", "_", "_living_room", "__x", "-1", " 2", "."])
    return {
        "ip": ip, "inner_ip": ip if rng.random() < 0.6 else f"10.{rng.randrange(256)}.{rng.randrange(256)}.{rng.randrange(1, 255)}",
        "version": rng.choice([2, 3]) if version is None else version,
        "device_id": rng.choice([0, 1, 255, 256, 2 ** 24, 2 ** 32 - 1, 2 ** 32, 2 ** 40 + 7, 2 ** 47, 2 ** 48 - 1,
                                 rng.getrandbits(48), 15393162840672, 147334558165565]),
        "port": rng.choice([6444, 1, 255, 256, 65535, rng.randrange(1, 65536)]),
        "sn": "".join(rng.choice(SN_CHARS) for _ in range(32)),
        "name": f"net_{ts}_{suffix}", "delay": rng.choice([0.001, 0.05, 1.0, 4.5]),
        "src_port": rng.choice([6445, 6445, 20086, rng.randrange(1024, 65536)]),
    }


def space(tier):
    sp = Space(ID)

    def types(j, rng):
        t = j % 256
        upper = bool((j // 256) % 2)
        version = 2 + (j // 512) % 2
        return {"hosts": [rand_host(rng, 0, t, upper, version)], "packets": rng.randint(1, 4),
                "single": None}
    sp.add("type_bytes", 1024, types, exhaustive=True)

    def rnd(j, rng):
        n = rng.randint(1, 3)
        hosts = [rand_host(rng, i) for i in range(n)]
        p = {"hosts": hosts, "packets": rng.randint(1, 4)}
        r = rng.random()
        if r < 0.3:
            p["single"] = rng.choice(hosts)["ip"]
            p["by_name"] = rng.random() < 0.3
        elif r < 0.35:
            p["single"] = "192.168.250.250"       # nobody there
        if rng.random() < 0.25:
            # a transient socket error is reported to the prober while replies are still on their way
            h = rng.choice(hosts)
            h["errors"] = [[rng.choice([0.001, 0.02, 0.5, 3.0]), rng.choice([104, 1, 101, 105])]]
        if rng.random() < 0.25:
            # auto-connect against V2 devices that are quick, slow, silent or not listening at all
            p["auto"] = True
            for h in hosts:
                h["version"] = 2
                h["tcp"] = rng.choice(["ok", "ok", "slow", "silent", "refused", "hang", "unreachable", "emfile"])
                if rng.random() < 0.8:
                    h["name"] = "net_" + rng.choice(["ac", "AC"]) + "_" + h["name"].split("_", 2)[2]
        return p
    sp.add("random", 12000 if tier == "quick" else 1_500_000, rnd)

    def two_loops(j, rng):
        n = rng.choice([2, 5, 9, 10, 12, 17, 24])
        hosts = []
        for i in range(n):
            h = rand_host(rng, i, 0xAC, rng.random() < 0.5, 2)
            h["name"] = "net_" + ("AC" if rng.random() < 0.5 else "ac") + "_" + "%04X" % rng.randrange(65536)
            h["ip"] = f"192.168.9.{10 + i}"
            h["delay"] = rng.choice([0.01, 0.05, 0.051])
            h["tcp_lat"] = rng.choice([0.05, 0.3, 1.0])
            hosts.append(h)
        return {"mode": "two_loops", "hosts": hosts, "rounds": rng.choice([2, 3])}
    sp.add("two_event_loops_in_one_process", 40 if tier == "quick" else 2000, two_loops)
    return sp
