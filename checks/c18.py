"""C18 - discovery: one device per host; bad responders cannot spoil the rest."""
import itertools

from .common import REAL_BASE, STUB_BASE, Result, Space, SimDeadlock, SimStepLimit, World, codec, rand_bytes
from .c17 import rand_host
from refmodel.hosts import RefHost, good_reply
from simkit.world import capture

ID = "C18"
LEVEL = "exploration"
RULE = ("A case is (up to 4 hosts, each good or of one bad-reply class: random bytes, valid envelope with short body, "
        "valid envelope with non-text body, name without separators, non-hex type, XML without body/device, XML device "
        "without attributes, XML with non-numeric port, XML pointing at a closed port, XML declaring unknown / multi-byte / EBCDIC "
        "encodings, SSDP/JSON/HTML text, empty and one-byte datagrams; 1-6 copies per host from either "
        "source port; the arrival time of every copy, hence the interleaving across hosts; some copies after the "
        "listening window). Part 'interleavings' enumerates every arrival order of the copies for <=3 hosts x <=2 "
        "copies; 'random' draws larger multisets, one fifth of them with auto_connect=True against V2 devices that answer "
        "quickly, slowly or never while late datagrams from known and new addresses keep arriving. Distinct = distinct (host classes, arrival sequence); non-trivial = "
        ">= 2 datagrams delivered."
        " Later additions: unicast discovery while other hosts talk to the same socket, copies of one host in both reply formats, a host whose only reply lands in the loop iteration in which the window ends.")
ASSUMPTIONS = [
    "an exception escaping datagram_received does not close a datagram transport (CPython 3.12 selector_events); the "
    "simulated endpoint behaves the same way",
    "a reply counts as delivered when the simulated endpoint handed it to the protocol before transport.close(); "
    "copies may be scheduled exactly at the end of the window - whichever side they land on is accepted, but a "
    "delivered good reply must be reported",
    "all copies of one host belong to one class",
]
COMPONENTS = {"real": REAL_BASE + ["Discover.discover, _DiscoverProtocol.datagram_received de-duplication, task gathering, "
                                   "_get_device_info parsing"],
              "stub": STUB_BASE + ["UDP segment and responding hosts"]}

BAD = ["random", "short_body", "nontext_body", "no_separators", "nonhex_type", "xml_no_device", "xml_no_attrs",
       "xml_bad_port", "xml_closed_port", "empty", "marker_only_v2", "marker_only_v3", "bad_cipher_len",
       # not a Midea reply at all
       "xml_nul_padded", "xml_trailing_garbage", "xml_leading_space", "xml_bom", "ssdp_text", "json_text", "html_text",
       "zero_length", "one_byte_marker", "xml_entity", "v3_header_only", "huge",
       "xml_unknown_encoding", "xml_utf16_label", "xml_ebcdic_label", "xml_pi_only", "xml_open_port",
       "xml_open_port_fin", "xml_open_port_rst", "xml_open_port_fin_on_query"]


def bad_reply(kind, h, seed):
    import hashlib
    rb = hashlib.sha256(f"bad{seed}".encode()).digest() * 8
    v3 = h["version"] == 3
    if kind == "random":
        return rb[:1 + seed % 200]
    if kind == "xml_nul_padded":
        return b'<a><body><device port="6444"/></body></a>' + bytes(1 + seed % 5)
    if kind == "xml_trailing_garbage":
        return b'<a><body><device port="6444"/></body></a>' + rb[:3]
    if kind == "xml_leading_space":
        return b'  \r\n<a><body><device port="x"/></body></a>'
    if kind == "xml_bom":
        return b"\xef\xbb\xbf<a><body><device/></body></a>"
    if kind == "ssdp_text":
        return b"HTTP/1.1 200 OK\r\nCACHE-CONTROL: max-age=1800\r\nST: upnp:rootdevice\r\n\r\n"
    if kind == "json_text":
        return b'{"device": {"port": 6444, "id": 1}}'
    if kind == "html_text":
        return b"<html><body><device port=6444></body></html>"
    if kind == "zero_length":
        return b""
    if kind == "one_byte_marker":
        return bytes([0x5A if seed % 2 else 0x83])
    if kind in ("xml_open_port_fin", "xml_open_port_rst", "xml_open_port_fin_on_query"):
        # an old (V1) unit whose TCP port accepts the connection and hangs up without answering the query
        return b'<a><body><device port="7777"/></body></a>'
    if kind == "xml_open_port":
        # an old (V1) unit: its TCP port accepts the connection and then says nothing (the library waits 8 s)
        return b'<a><body><device port="7777"/></body></a>'
    if kind == "xml_unknown_encoding":
        return b'<?xml version="1.0" encoding="x-vendor-8bit"?><a><body><device port="6444"/></body></a>'
    if kind == "xml_utf16_label":
        return b'<?xml version="1.0" encoding="utf-16"?><a><body><device port="6444"/></body></a>'
    if kind == "xml_ebcdic_label":
        return b'<?xml version="1.0" encoding="cp037"?><a><body><device port="6444"/></body></a>'
    if kind == "xml_pi_only":
        return b'<?xml version="1.0" encoding="big5"?>'
    if kind == "xml_entity":
        return b'<!DOCTYPE a [<!ENTITY e "x">]><a><body><device port="&e;"/></body></a>'
    if kind == "v3_header_only":
        return b"\x83\x70\x00\x00\x20\x0f\x00\x00"
    if kind == "huge":
        return (b"\x5a\x5a" + rb) * 20
    if kind == "empty":
        return b"\x00"
    if kind == "marker_only_v2":
        return b"\x5a\x5a" + rb[:seed % 60]
    if kind == "marker_only_v3":
        return b"\x83\x70" + rb[:seed % 60]
    if kind == "bad_cipher_len":
        body = rb[:seed % 15 + 1]
        pkt = b"\x5a\x5a\x01\x11" + (40 + len(body) + 16).to_bytes(2, "little") + b"\x7a\x80" + bytes(32) + body + bytes(16)
        return pkt
    if kind == "short_body":
        body = codec.discovery_body(h["ip"], h["port"], h["sn"], h["name"])[:seed % 40]
    elif kind == "nontext_body":
        body = bytes([10, 0, 0, 10, 0x2c, 0x19, 0, 0]) + bytes([0xFF, 0xFE] * 16) + bytes([8]) + bytes([0xC3, 0x28] * 4)
    elif kind == "no_separators":
        body = codec.discovery_body(h["ip"], h["port"], h["sn"], "midea" + h["name"].replace("_", ""))
    elif kind == "nonhex_type":
        body = codec.discovery_body(h["ip"], h["port"], h["sn"], "net_zz_" + h["name"].split("_")[2])
    elif kind == "xml_no_device":
        return b"<a><body></body></a>"
    elif kind == "xml_no_attrs":
        return b"<a><body><device/></body></a>"
    elif kind == "xml_bad_port":
        return b'<a><body><device port="http"/></body></a>'
    elif kind == "xml_closed_port":
        return b'<a><body><device port="6444"/></body></a>'
    else:
        raise ValueError(kind)
    if v3:
        return codec.discovery_reply_v3(h["device_id"], body)
    return codec.discovery_reply_v2(h["device_id"], body)


class _HangsUp:
    """A TCP server that accepts and closes the connection without ever answering."""

    def __init__(self, cls):
        self.cls = cls

    def connect_policy(self, net, host, port):
        return "accept", 1 / 1024

    def on_connect(self, conn):
        if not self.cls.endswith("on_query"):
            conn.close(rst=self.cls.endswith("rst"), lat=0.05)

    def on_data(self, conn, data):
        if self.cls.endswith("on_query"):
            conn.close(rst=False, lat=0.01)

    def on_client_close(self, conn):
        pass


class _Silent:
    """A TCP server that accepts and never says anything."""

    def connect_policy(self, net, host, port):
        return "accept", 1 / 1024

    def on_connect(self, conn):
        pass

    def on_data(self, conn, data):
        pass

    def on_client_close(self, conn):
        pass


def run(plan):
    w = World(seed=plan.get("seed", 0), max_iterations=8000 + 400 * len(plan["hosts"]))
    res = Result()
    good_in_window = set()
    delivered = 0
    for hi, h in enumerate(plan["hosts"]):
        if h["cls"] == "good":
            data = good_reply(h["version"], h["device_id"], h["inner_ip"], h["port"], h["sn"], h["name"])
        else:
            data = bad_reply(h["cls"], h, plan.get("seed", 0) + hi)
        replies = []
        for cp in h["copies"]:
            t, src_port = cp[0], cp[1]
            d_copy = data
            if len(cp) > 2 and h["cls"] == "good":
                # the same unit answers in the other protocol format as well (it listens on both probe ports)
                d_copy = good_reply(cp[2], h["device_id"], h["inner_ip"], h["port"], h["sn"], h["name"])
                if cp[2] != h["version"]:
                    w.fire("same_address_replies_in_both_formats")
            replies.append((t, src_port, d_copy))
            if t <= 5.0:
                delivered += 1
                if h["cls"] == "good":
                    good_in_window.add(h["ip"])
            else:
                w.fire("udp_late")
        if len(h["copies"]) > 1:
            w.fire("udp_dup", len(h["copies"]) - 1)
        if h["cls"] != "good":
            w.fire("udp_bad_reply[" + h["cls"] + "]")
        if h["cls"] == "xml_open_port":
            w.net.listen(h["ip"], 7777, _Silent())
        elif h["cls"].startswith("xml_open_port_"):
            w.net.listen(h["ip"], 7777, _HangsUp(h["cls"]))
        rh = RefHost(h["ip"], replies)
        if plan.get("single") is not None and hi != plan["single"]:
            rh.chatty = True           # talks to the prober although only the target was probed
        w.net.add_udp_host(h["ip"], rh)
        if plan.get("auto") and h["cls"] == "good" and h.get("tcp") in ("ok", "slow", "silent", "hang", "unreachable"):
            from refmodel.device import RefDevice
            d = RefDevice(version=2, device_id=h["device_id"])
            if h["tcp"] == "slow":
                d.default_directive = {"lat": 1.9}
            elif h["tcp"] == "silent":
                d.default_directive = {"drop": True}
            elif h["tcp"] == "hang":
                d.conn_script = [["hang", 0]] * 4
            elif h["tcp"] == "unreachable":
                d.conn_script = [["oserror:113", 0.003]] * 4
            w.net.listen(h["ip"], h["port"], d)
    auto = bool(plan.get("auto"))
    if auto:
        w.fire("auto_connect_run")

    async def main(w):
        D = w.ns.discover.Discover
        if plan.get("single") is not None:
            # unicast discovery of one host while other hosts talk to the same socket
            target = plan["hosts"][plan["single"]]
            o = await capture(w, D.discover_single(target["ip"], auto_connect=False))
            if o.kind != "ok":
                res.fail(f"discover_single raised {o.exc_type}", f"classes {[h['cls'] for h in plan['hosts']]}: {o.exc!r}")
                return
            got_t = any(addr[0] == target["ip"] for (_t, _d, addr) in w.net.endpoints[0].received)
            # a reply sent well inside the 5 s listening window counts, whatever else arrived before it
            inside = any(cp[0] <= 4.9 for cp in target["copies"])
            want = target["cls"] == "good" and (got_t or inside)
            w.fire("unicast_discovery_with_foreign_datagrams")
            if want and o.value is None:
                res.fail("a good host was not reported", f"discover_single({target['ip']}) returned None; classes "
                                                         f"{[h['cls'] for h in plan['hosts']]}")
            elif o.value is not None and (not want or o.value.ip != target["ip"]):
                res.fail("a host without a good reply inside the window was reported", f"discover_single -> {o.value.ip}")
            return
        kw = {}
        if plan.get("target"):
            kw["target"] = plan["target"]         # a directed broadcast instead of the limited one
            w.fire("directed_broadcast_target")
        o = await capture(w, D.discover(auto_connect=auto, **kw))
        if o.kind != "ok":
            res.fail(f"discover raised {o.exc_type}", f"classes {[h['cls'] for h in plan['hosts']]}: {o.exc!r}")
            return
        ips = [d.ip for d in o.value]
        if len(ips) != len(set(ips)):
            res.fail("more than one device reported for one address", repr(ips))
            return
        # a reply counts when it was actually handed to the protocol before the listening socket was closed
        # (copies scheduled at exactly the end of the window may land on either side)
        good_ips = {h["ip"] for h in plan["hosts"] if h["cls"] == "good"}
        good_in_window.clear()
        for (_t, _data, addr) in w.net.endpoints[0].received:
            if addr[0] in good_ips:
                good_in_window.add(addr[0])
        if set(ips) != good_in_window:
            missing = good_in_window - set(ips)
            extra = set(ips) - good_in_window
            if missing:
                res.fail("a good host was not reported", f"missing {sorted(missing)}; classes {[h['cls'] for h in plan['hosts']]}")
            else:
                res.fail("a host without a good reply inside the window was reported", f"extra {sorted(extra)}")
            return
        # a second run in the same process must report the same hosts
        if plan.get("twice"):
            for hi, h in enumerate(plan["hosts"]):
                w.net.udp_hosts[h["ip"]].answered = False
            o2 = await capture(w, D.discover(auto_connect=auto))
            if o2.kind != "ok":
                res.fail(f"second discover raised {o2.exc_type}", repr(o2.exc))
                return
            if sorted(d.ip for d in o2.value) != sorted(ips):
                res.fail("a second discovery run in the same process reports different hosts",
                         f"first {sorted(ips)} second {sorted(d.ip for d in o2.value)}")
                return
            w.fire("second_discovery_run")
        by_ip = {d.ip: d for d in o.value}
        for h in plan["hosts"]:
            if h["ip"] in by_ip:
                d = by_ip[h["ip"]]
                vers = {h["version"]} | {cp[2] for cp in h["copies"] if len(cp) > 2}
                if (d.id, d.port, d.sn, d.name) != (h["device_id"], h["port"], h["sn"], h["name"]) or d.version not in vers:
                    res.fail("reported identity differs from the advertised one", h["ip"])
                    return

    try:
        w.run(main)
    except (SimDeadlock, SimStepLimit) as e:
        res.fail(f"liveness: {type(e).__name__}", str(e))
    res.take(w)
    if w.net.protocol_exceptions:
        res.probes["exception_inside_datagram_received"] = len(w.net.protocol_exceptions)
    order = sorted((cp[0], hi) for hi, h in enumerate(plan["hosts"]) for cp in h["copies"])
    res.key = (tuple(h["cls"] for h in plan["hosts"]), tuple(hi for _t, hi in order), tuple(t >= 5.0 for t, _ in order),
               plan.get("single"), tuple(tuple(cp[2:]) for h in plan["hosts"] for cp in h["copies"]))
    res.nontrivial = delivered >= 2
    return res


def mk_hosts(rng, classes):
    hosts = []
    for i, c in enumerate(classes):
        h = rand_host(rng, i)
        h["cls"] = c
        hosts.append(h)
    return hosts


def space(tier):
    sp = Space(ID)
    # --- complete interleavings: <=3 hosts x <=2 copies: all distinct arrival orders
    shapes = []
    for nh in (1, 2, 3):
        for counts in itertools.product((1, 2), repeat=nh):
            seq = [hi for hi, c in enumerate(counts) for _ in range(c)]
            orders = sorted(set(itertools.permutations(seq)))
            for o in orders:
                shapes.append((nh, o))

    def inter(j, rng):
        nh, order = shapes[j % len(shapes)]
        k = j // len(shapes)
        classes = ["good"] * nh
        if k % 3 == 1:
            classes[rng.randrange(nh)] = rng.choice(BAD)
        elif k % 3 == 2:
            for i in range(nh):
                if rng.random() < 0.5:
                    classes[i] = rng.choice(BAD)
        hosts = mk_hosts(rng, classes)
        for h in hosts:
            h["copies"] = []
        for pos, hi in enumerate(order):
            hosts[hi]["copies"].append([0.05 + 0.01 * pos, rng.choice([6445, 20086])])
        return {"hosts": hosts}
    sp.add("interleavings", len(shapes) * (9 if tier == "quick" else 300), inter, exhaustive=True)

    def rnd(j, rng):
        nh = rng.randint(1, 4)
        classes = [rng.choice(["good", "good", "good"] + BAD) for _ in range(nh)]
        hosts = mk_hosts(rng, classes)
        for h in hosts:
            n = rng.randint(1, 6)
            h["copies"] = [[rng.choice([0.001, 0.002, 0.05, 0.051, 1.0, 2.5, 4.5, 4.9, 5.1, 6.0, 13.5]),
                            rng.choice([6445, 20086, 40000])] for _ in range(n)]
            # distinct times per run so that the arrival order is the drawn one
            for c in h["copies"]:
                c[0] += rng.randrange(0, 64) / 65536
            if rng.random() < 0.15:
                # a copy landing exactly when the listening window ends, or one tick to either side
                h["copies"].append([5.0 + rng.choice([-1, 0, 0, 1]) / (1 << 20), 6445])
            elif rng.random() < 0.08:
                # the host's one and only reply is handled in the very loop iteration in which the window ends
                h["copies"] = [[5.0 + rng.choice([-1, 0, 0, 0]) / (1 << 20), rng.choice([6445, 20086])]]
        p = {"hosts": hosts, "twice": rng.random() < 0.3}
        if rng.random() < 0.1:
            p["target"] = rng.choice(["192.168.255.255", "10.255.255.255", "192.168.1.255"])
        for h in hosts:
            if h["cls"] == "good" and rng.random() < 0.2:
                for cp in h["copies"]:
                    cp.append(rng.choice([2, 3]))
        if rng.random() < 0.15:
            # unicast discovery of one host; the others talk to the prober's socket with replies that are not
            # usable (which of several *good* repliers discover_single() returns is unspecified)
            p["single"] = rng.randrange(len(hosts))
            p["twice"] = False
            for i, h in enumerate(hosts):
                if i != p["single"] and h["cls"] == "good":
                    h["cls"] = rng.choice(["short_body", "nontext_body", "marker_only_v2", "marker_only_v3", "xml_no_attrs",
                                           "xml_closed_port", "no_separators", "bad_cipher_len", "v3_header_only"])
            return p
        if rng.random() < 0.2:
            # auto-connect: good V2 air conditioners are contacted after the window; some answer slowly or never, so
            # parse tasks are still pending while late datagrams (also from new addresses) keep arriving
            p["auto"] = True
            for h in hosts:
                h["copies"] = [cp[:2] for cp in h["copies"]]      # (a V3 identity would send auto-connect to the cloud)
                if h["cls"] == "good":
                    h["version"] = 2
                    h["name"] = "net_" + rng.choice(["ac", "AC"]) + "_" + h["name"].split("_", 2)[2]
                    h["tcp"] = rng.choice(["ok", "slow", "silent", "silent", "refused", "hang", "unreachable"])
                    if rng.random() < 0.3:
                        h["copies"] = [[rng.choice([5.5, 6.0, 7.5, 9.0, 13.5]), 6445]]     # only late copies
        return p
    sp.add("random", 14000 if tier == "quick" else 1_500_000, rnd)

    def each_bad(j, rng):
        cls = BAD[j % len(BAD)]
        pos = (j // len(BAD)) % 3
        classes = ["good", "good", "good"]
        classes[pos] = cls
        hosts = mk_hosts(rng, classes)
        times = [0.05, 0.06, 0.07]
        for i, h in enumerate(hosts):
            h["copies"] = [[times[i], 6445]]
        return {"hosts": hosts}
    def crowd(j, rng):
        # many hosts at once: a crowd of slow old units (their queries stay pending for 8 s), other bad repliers, and
        # good hosts whose first reply arrives while those queries are pending
        n_slow = rng.choice([5, 15, 16, 17, 20, 30])
        n_good = rng.randint(2, 6)
        classes = ["xml_open_port"] * n_slow + ["good"] * n_good + [rng.choice(BAD) for _ in range(rng.randint(0, 3))]
        hosts = mk_hosts(rng, classes)
        for i, h in enumerate(hosts):
            h["ip"] = f"192.168.{7 + i // 200}.{10 + i % 200}"
            if h["cls"] == "good":
                h["inner_ip"] = h["ip"]
                h["copies"] = [[rng.choice([0.5, 1.0, 2.0, 4.0]), 6445]]
            else:
                h["copies"] = [[rng.choice([0.01, 0.05, 0.2]), rng.choice([6445, 20086])]]
        return {"hosts": hosts}
    sp.add("crowds_with_slow_old_units", 60 if tier == "quick" else 3000, crowd)
    sp.add("each_bad_class", len(BAD) * 3 * (2 if tier == "quick" else 40), each_bad, exhaustive=True)
    return sp


def simplify(plan):
    import json
    for i in range(len(plan["hosts"])):
        if len(plan["hosts"]) > 1:
            c = json.loads(json.dumps(plan))
            del c["hosts"][i]
            yield c
    for i, h in enumerate(plan["hosts"]):
        if len(h["copies"]) > 1:
            c = json.loads(json.dumps(plan))
            c["hosts"][i]["copies"] = h["copies"][:1]
            yield c
