"""C19 - cloud token retrieval follows the API contract and returns only matching credentials."""
import asyncio
import hashlib

from .common import (REAL_BASE, STUB_BASE, Result, Space, SimDeadlock, SimStepLimit, World, codec, rand_bytes, det_bytes)
from .session import compare_view
from refmodel.cloud import RefCloud
from refmodel.device import RefDevice
from refmodel.hosts import RefHost, good_reply
from simkit.world import capture

ID = "C19"
LEVEL = "exploration"
RULE = ("A case is one of: [select] account/password (ASCII incl. '+ @ % & = space'), region defaults, a device udpid "
        "and a token list in which the matching entry is absent / first / middle / last / surrounded by near-miss ids "
        "(one nibble or letter case different), login() then get_token(); [faults] the same with a per-request fault "
        "sequence over {ok, timeout (10 s, then ReadTimeout), HTTP 4xx/5xx, API error code}; [e2e] "
        "Discover.discover(auto_connect=True) against a V3 host whose credential is registered under the little- or "
        "big-endian udpid, the cloud issuing some token for every udpid asked. The reference server verifies sign, "
        "fixed fields, stamp = wall clock, loginAccount, password derivation and sessionId on every request. Distinct "
        "= distinct plan; non-trivial = at least one request reached the reference server."
        " Later additions: HTTP error statuses carrying Retry-After / Location headers, also as the answer to every attempt; parts 'relogin' (rotating login ids, dropped sessions answered 3106), 'overlapping_calls_one_cancelled'; e2e with silent firmware, concurrent devices, a second run after session expiry and one-off hard cloud faults.")
ASSUMPTIONS = [
    "NetHome Plus API as implemented by refmodel/cloud.py: sign = SHA-256(path || sorted k=v joined by & || APP_KEY), "
    "password = SHA-256(loginId || SHA-256(password).hex || APP_KEY); form-encoded POST to https://mapp.appsmb.com",
    "real httpx.AsyncClient on httpx.MockTransport: request encoding and response parsing are real code; TLS and "
    "transport-level timeouts are not exercised (a timeout is the handler sleeping 10 virtual seconds and raising "
    "httpx.ReadTimeout)",
    "retry budget: at most 3 attempts per API call, only timeouts are retried",
]
COMPONENTS = {"real": REAL_BASE + ["NetHomePlusCloud.login/get_token/_api_request/_post_request/_Security", "httpx.AsyncClient",
                                   "Discover.discover/_authenticate_device/connect (e2e)"],
              "stub": STUB_BASE + ["cloud server (RefCloud behind httpx.MockTransport)"]}

ACCOUNT_CHARS = "abcXYZ019+@%&= ._-"
BUILTIN = {"US": ("nethome+us@mailinator.com", "password1"), "DE": ("nethome+de@mailinator.com", "password1"),
           "KR": ("nethome+sea@mailinator.com", "password1")}


def stamp_fn(w):
    return lambda: w.clock.now().strftime("%Y%m%d%H%M%S")


def expected_attempts(faults):
    """Model of one API call: returns (n_attempts, outcome) consuming from faults list."""
    n = 0
    while True:
        f = faults.pop(0) if faults else None
        n += 1
        if f == "timeout":
            if n >= 3:
                return n, "cloud_error"
            continue
        if f is None:
            return n, "ok"
        return n, "cloud_error"


def run(plan):
    w = World(seed=plan.get("seed", 0), max_iterations=30_000, epoch=tuple(plan.get("epoch", (2024, 5, 17, 10, 20, 30, 0))))
    res = Result()
    mode = plan["mode"]
    acct, pwd = plan.get("account"), plan.get("password")
    region = plan.get("region", "US")
    real_acct, real_pwd = (acct, pwd) if acct else BUILTIN[region]
    cloud = RefCloud({real_acct: real_pwd}, clock_fn=stamp_fn(w))
    cloud.faults = [tuple(f) if isinstance(f, list) else f for f in plan.get("faults", [])]
    udpid = plan.get("udpid", "")
    if "tokenlist" in plan:
        cloud.tokens[udpid] = plan["tokenlist"]

    def check_requests():
        if cloud.problems:
            res.fail("request does not verify at the reference server: " + cloud.problems[0].split(" (")[0][:70],
                     repr(cloud.problems[:3]))
            return False
        return True

    async def select_main(w):
        CE = w.ns.cloud.CloudError
        c = w.ns.cloud.NetHomePlusCloud(region, account=acct, password=pwd, get_async_client=cloud.client_factory())
        faults_model = [tuple(f) if isinstance(f, list) else f for f in plan.get("faults", [])]
        # --- login: two API calls
        n_id, out_id = expected_attempts(faults_model)
        exp_login = out_id
        n_login = 0
        if out_id == "ok":
            n_login, exp_login = expected_attempts(faults_model)
        o = await capture(w, c.login())
        n_req = len(cloud.requests)
        if not check_requests():
            return
        if o.kind == "exc" and not isinstance(o.exc, CE):
            res.fail(f"login raised {o.exc_type} (not CloudError)", repr(o.exc))
            return
        if (o.kind == "ok") != (exp_login == "ok"):
            res.fail("login outcome differs from the API contract", f"got {o!r}, expected {exp_login}; faults {plan.get('faults')}")
            return
        if n_req != n_id + n_login:
            res.fail("number of login attempts differs from the retry contract", f"{n_req} requests, expected {n_id}+{n_login}")
            return
        if exp_login != "ok":
            return
        paths = [r["path"] for r in cloud.requests]
        if paths[0] != "/v1/user/login/id/get" or paths[-1] != "/v1/user/login":
            res.fail("login flow does not follow login-id then login", repr(paths))
            return
        # --- get_token
        n_tok, exp_tok = expected_attempts(faults_model)
        match = [e for e in plan.get("tokenlist", []) if e.get("udpId") == udpid]
        o = await capture(w, c.get_token(udpid))
        if not check_requests():
            return
        if o.kind == "exc" and not isinstance(o.exc, CE):
            res.fail(f"get_token raised {o.exc_type} (not CloudError)", repr(o.exc))
            return
        if len(cloud.requests) - n_req != n_tok:
            res.fail("number of get_token attempts differs from the retry contract", f"{len(cloud.requests) - n_req} vs {n_tok}")
            return
        if exp_tok != "ok":
            if o.kind == "ok":
                res.fail("get_token succeeded although the API call failed", "")
            return
        if not match:
            if o.kind == "ok":
                res.fail("get_token returned credentials although no entry matches the requested id", f"{o.value!r}")
            return
        if o.kind != "ok":
            res.fail(f"get_token raised {o.exc_type} although a matching entry exists", repr(o.exc))
            return
        if tuple(o.value) != (match[0]["token"], match[0]["key"]):
            res.fail("get_token returned another entry's credentials", f"{o.value!r} vs {match[0]}")
            return
        last = cloud.requests[-1]["fields"]
        if last.get("udpid") != udpid:
            res.fail("get_token asked for a different udpid", last.get("udpid"))

    async def overlap_main(w):
        """Two calls overlap on one cloud object; the second one is cancelled while it waits behind the first one's
        unanswered request. The first call is healthy and must return its matching entry."""
        CE = w.ns.cloud.CloudError
        c = w.ns.cloud.NetHomePlusCloud(region, account=acct, password=pwd, get_async_client=cloud.client_factory())
        o = await capture(w, c.login())
        if o.kind != "ok":
            res.fail(f"login failed against a conforming server: {o.exc_type}", repr(o.exc))
            return
        cloud.faults = [("slow", plan.get("slow", 1.0))]
        other = plan.get("other_udpid", udpid)
        cloud.tokens.setdefault(other, [{"udpId": other, "token": "ab" * 64, "key": "cd" * 32}])
        ta = w.loop.create_task(capture(w, c.get_token(udpid)))
        await asyncio.sleep(plan.get("lead", 0.1))
        ob = await capture(w, c.get_token(other), cancel_after=plan.get("cancel", 0.3))
        oa = await ta
        w.fire("cloud_call_cancelled_while_waiting_behind_another")
        if not check_requests():
            return
        match = [e for e in plan.get("tokenlist", []) if e.get("udpId") == udpid]
        if oa.kind == "exc" and not isinstance(oa.exc, CE):
            res.fail(f"get_token raised {oa.exc_type} (not CloudError)", f"the healthy call of two overlapping ones: {oa.exc!r}")
            return
        if match:
            if oa.kind != "ok":
                res.fail(f"get_token raised {oa.exc_type} although a matching entry exists", repr(oa.exc))
                return
            if tuple(oa.value) != (match[0]["token"], match[0]["key"]):
                res.fail("get_token returned another entry's credentials", f"{oa.value!r}")
                return
        # afterwards the object still works
        o = await capture(w, c.get_token(udpid))
        if not check_requests():
            return
        if match and (o.kind != "ok" or tuple(o.value) != (match[0]["token"], match[0]["key"])):
            res.fail("get_token after overlapping calls failed or returned another entry", repr(o))

    async def relogin_main(w):
        """login(), forced re-login(s) against a server that rotates the loginId, then get_token."""
        CE = w.ns.cloud.CloudError
        cloud.rotate_login_id = True
        c = w.ns.cloud.NetHomePlusCloud(region, account=acct, password=pwd, get_async_client=cloud.client_factory())
        for step in plan["steps"]:
            if step == "login":
                o = await capture(w, c.login())
            elif step == "force":
                o = await capture(w, c.login(force=True))
            elif step == "expire":
                cloud.expire_sessions()
                continue
            elif step == "token_on_expired_session":
                # the server has dropped the session: this request is answered with "invalid session" (3106)
                o = await capture(w, c.get_token(udpid))
                if not check_requests():
                    return
                if o.kind == "ok":
                    res.fail("get_token succeeded on a session the server had dropped", repr(o.value))
                    return
                if not isinstance(o.exc, CE):
                    res.fail(f"API error surfaced as {o.exc_type} instead of a cloud error", repr(o.exc))
                    return
                w.fire("api_invalid_session")
                continue
            else:
                o = await capture(w, c.get_token(udpid))
            if not check_requests():
                return
            if o.kind != "ok":
                if step == "token" and isinstance(o.exc, CE) and not any(e.get("udpId") == udpid for e in plan.get("tokenlist", [])):
                    continue
                res.fail(f"{step} failed against a conforming server: {o.exc_type}", repr(o.exc))
                return
            if step == "token":
                match = [e for e in plan.get("tokenlist", []) if e.get("udpId") == udpid]
                if match and tuple(o.value) != (match[0]["token"], match[0]["key"]):
                    res.fail("get_token returned another entry's credentials", repr(o.value))
                    return
        w.fire("forced_relogin_with_rotating_login_id")

    async def e2e_main(w):
        D = w.ns.discover.Discover
        ndev = plan.get("ndev", 1)
        devs = []
        cloud.default_tokens = lambda u: [{"udpId": u, "token": hashlib.sha512(u.encode()).hexdigest(),
                                           "key": hashlib.sha256(u.encode()).hexdigest()}]
        for i in range(ndev):
            ip = f"192.168.7.{20 + i}"
            dev_id = (plan["device_id"] + 257 * i) & (2 ** 48 - 1)
            token = det_bytes(f"e2etok{plan.get('seed')}:{i}", 64)
            key = det_bytes(f"e2ekey{plan.get('seed')}:{i}", 32)
            dev = RefDevice(version=3, device_id=dev_id, token=token, key=key, nonce_seed=f"e2e{i}".encode())
            for k, v in plan.get("state", {}).items():
                dev.state[k] = v
            dev.state["fan"] = 20 + i
            dev.silent_on_bad_token = bool(plan.get("silent_on_bad_token"))   # firmware that ignores unknown tokens
            w.net.listen(ip, 6444, dev)
            reply = good_reply(3, dev_id, ip, 6444, "000000P0000000Q1B88C29C963BA0000", "net_ac_63BA")
            w.net.add_udp_host(ip, RefHost(ip, [(plan.get("reply_delay", 0.05) + 0.001 * i * plan.get("stagger", 0), 6445, reply)]))
            endian = plan["endian"] if i % 2 == 0 else ("big" if plan["endian"] == "little" else "little")
            reg = codec.udpid(dev_id.to_bytes(6, endian)).hex()
            cloud.tokens[reg] = [{"udpId": reg, "token": token.hex(), "key": key.hex()}]
            devs.append((ip, dev_id, dev, token, key, reg, endian))
        if plan.get("overlap"):
            # two discovery runs overlap in one event loop (a UI refresh button pressed twice): each reports every
            # unit, properly authenticated
            async def later():
                await asyncio.sleep(plan["overlap"])
                return await capture(w, D.discover(auto_connect=True, account=acct, password=pwd, region=region,
                                                   get_async_client=cloud.client_factory()))
            o, o_b = await asyncio.gather(
                capture(w, D.discover(auto_connect=True, account=acct, password=pwd, region=region,
                                      get_async_client=cloud.client_factory())), later())
            w.fire("two_discovery_runs_overlap")
            if o_b.kind != "ok":
                res.fail(f"discover(auto_connect=True) raised {o_b.exc_type}", f"the later of two overlapping runs: {o_b.exc!r}")
                return
            if sorted(d.ip for d in o_b.value) != sorted(x[0] for x in devs) or any(
                    d.token != tk.hex() for d in o_b.value for (ip, _i, _d, tk, _k, _r, _e) in devs if ip == d.ip):
                res.fail("device not authenticated with its registered credentials", "the later of two overlapping runs")
                return
        else:
            o = await capture(w, D.discover(auto_connect=True, account=acct, password=pwd, region=region,
                                            get_async_client=cloud.client_factory()))
        if o.kind == "ok" and plan.get("twice"):
            # a second discovery run in the same process, after the server has dropped the first run's session
            cloud.sessions.clear()
            for h in w.net.udp_hosts.values():
                h.answered = False
            w.fire("second_discovery_after_session_expiry")
            if not check_requests():
                return
            o = await capture(w, D.discover(auto_connect=True, account=acct, password=pwd, region=region,
                                            get_async_client=cloud.client_factory()))
        if not check_requests():
            return
        if plan.get("hard_fault") and o.kind == "exc":
            # an HTTP failure / API error on one of the cloud calls surfaces as a cloud error (or the run completes
            # with every device properly authenticated - never with a device silently left unauthenticated)
            if not isinstance(o.exc, w.ns.cloud.CloudError):
                res.fail(f"discover(auto_connect=True) raised {o.exc_type}", f"after a cloud fault: {o.exc!r}")
            w.fire("cloud_fault_during_auto_connect")
            return
        if o.kind != "ok":
            res.fail(f"discover(auto_connect=True) raised {o.exc_type}", repr(o.exc))
            return
        by_ip = {d.ip: d for d in o.value}
        if sorted(by_ip) != sorted(x[0] for x in devs):
            res.fail("discover did not return every V3 host", repr(sorted(by_ip)))
            return
        asked = [r["fields"].get("udpid") for r in cloud.requests if r["path"].endswith("getToken")]
        for ip, dev_id, dev, token, key, reg, endian in devs:
            d = by_ip[ip]
            le = codec.udpid(dev_id.to_bytes(6, "little")).hex()
            be = codec.udpid(dev_id.to_bytes(6, "big")).hex()
            if reg not in asked:
                res.fail("token never requested for the registered byte order", f"asked {asked}, registered {endian}")
                return
            if d.token != token.hex() or d.key != key.hex():
                res.fail("device not authenticated with its registered credentials", f"{ip}: token {str(d.token)[:16]}..")
                return
            if not d.online:
                res.fail("device authenticated but not refreshed", ip)
                return
            bad = compare_view(d, dev.state, dev.state_len)
            if bad:
                res.fail("state after auto-connect differs: " + bad[0][0], repr(bad))
                return
            if endian == "big":
                w.probe("credential_registered_under_big_endian_udpid")
        known = set()
        for _ip, dev_id, *_rest in devs:
            known |= {codec.udpid(dev_id.to_bytes(6, "little")).hex(), codec.udpid(dev_id.to_bytes(6, "big")).hex()}
        if any(a not in known for a in asked):
            res.fail("token requested for an id not derived from a device id", repr(asked))
            return
        n_login = sum(1 for r in cloud.requests if r["path"] == "/v1/user/login" and r["fault"] is None)
        if n_login > 1:
            w.probe("more_than_one_login")
        if ndev > 1:
            w.fire("concurrent_auto_connect", ndev)

    try:
        w.run({"e2e": e2e_main, "relogin": relogin_main, "overlap": overlap_main}.get(mode, select_main))
    except (SimDeadlock, SimStepLimit) as e:
        res.fail(f"liveness: {type(e).__name__}", str(e))
    res.take(w)
    for r in cloud.requests:
        f = r["fault"]
        if f is not None:
            k = f if isinstance(f, str) else f"{f[0]}_{f[1]}"
            res.fired["http_" + k if not k.startswith("http") else k] = res.fired.get("http_" + k if not k.startswith("http") else k, 0) + 1
    res.key = res.digest + repr(plan.get("tokenlist"))[:200]
    res.nontrivial = len(cloud.requests) > 0
    return res


# ---------------------------------------------------------------------------------------------
def rand_udpid(rng):
    return rand_bytes(rng, 16).hex()


def near_miss(rng, udpid):
    r = rng.random()
    if r < 0.4:
        i = rng.randrange(len(udpid))
        c = "0123456789abcdef"[(int(udpid[i], 16) + rng.randrange(1, 16)) % 16]
        return udpid[:i] + c + udpid[i + 1:]
    if r < 0.6 and udpid.upper() != udpid:
        return udpid.upper()
    if r < 0.75:
        return udpid[:-1]
    if r < 0.9:
        return udpid + "0"
    return udpid[::-1] if udpid[::-1] != udpid else rand_udpid(rng)


def entry(rng, u):
    return {"udpId": u, "token": rand_bytes(rng, 64).hex(), "key": rand_bytes(rng, 32).hex()}


def gen_select(j, rng, with_faults=False):
    udpid = rand_udpid(rng)
    place = ["absent", "first", "middle", "last", "only", "empty"][j % 6]
    n = rng.randint(2, 6)
    others = [entry(rng, near_miss(rng, udpid) if rng.random() < 0.7 else rand_udpid(rng)) for _ in range(n)]
    if place == "absent":
        lst = others
    elif place == "first":
        lst = [entry(rng, udpid)] + others
    elif place == "last":
        lst = others + [entry(rng, udpid)]
    elif place == "middle":
        k = rng.randrange(1, len(others))
        lst = others[:k] + [entry(rng, udpid)] + others[k:]
    elif place == "only":
        lst = [entry(rng, udpid)]
    else:
        lst = []
    # all request field orders: entries with extra / reordered fields
    for e in lst:
        if rng.random() < 0.3:
            e2 = {"key": e["key"], "extra": "x", "token": e["token"], "udpId": e["udpId"]}
            e.clear()
            e.update(e2)
    p = {"mode": "select", "udpid": udpid, "tokenlist": lst,
         "epoch": [rng.randint(2000, 2099), rng.randint(1, 12), rng.randint(1, 28), rng.randint(0, 23), rng.randint(0, 59),
                   rng.randint(0, 59), rng.choice([0, 999999, rng.randrange(10 ** 6)])]}
    if rng.random() < 0.6:
        p["account"] = "".join(rng.choice(ACCOUNT_CHARS) for _ in range(rng.randint(1, 24)))
        p["password"] = "".join(rng.choice(ACCOUNT_CHARS) for _ in range(rng.randint(1, 24)))
    else:
        p["region"] = rng.choice(["US", "DE", "KR"])
    if with_faults:
        faults = []
        for _ in range(rng.randint(1, 9)):
            faults.append(rng.choice([None, None, "timeout", "timeout", "timeout", ["http", rng.choice([400, 401, 404, 429, 500, 502, 503, 301, 302, 304, 307, 308, 599, 418])],
                                      ["api", rng.choice([3101, 3004, 3144, 9999])],
                                      ["exc", rng.choice(["RemoteProtocolError", "ReadError", "ConnectError", "WriteError",
                                                          "LocalProtocolError", "ProxyError", "DecodingError",
                                                          "TooManyRedirects", "UnsupportedProtocol", "CloseError"])]]))
        # a throttling server / a proxy in front of it: error statuses that carry Retry-After (seconds or a date) or a
        # Location header; sometimes the same answer to every attempt.  An HTTP failure is a cloud error all the same
        for f in faults:
            if isinstance(f, list) and f[0] == "http" and rng.random() < 0.5:
                f.append({"Retry-After": rng.choice(["0", "1", "2", "5", "30", "120", "Wed, 21 Oct 2026 07:28:00 GMT"])}
                         if f[1] in (429, 503, 500, 502, 599, 418) else
                         {"Location": "https://mapp.appsmb.com" + rng.choice(["/v1/user/login/id/get", "/", "/v1/iot/secure/getToken"]),
                          "Retry-After": "1"})
        if rng.random() < 0.08:
            k = rng.randint(0, 2)
            faults = [None] * k + [["http", rng.choice([429, 503]), {"Retry-After": rng.choice(["0", "1", "3"])}]] * rng.choice([4, 12, 40])
        p["faults"] = faults
        p["mode"] = "faults"
    return p


def space(tier):
    sp = Space(ID)
    sp.add("select", 4000 if tier == "quick" else 120_000, gen_select)
    sp.add("faults", 4000 if tier == "quick" else 120_000, lambda j, rng: gen_select(j, rng, True))

    def e2e(j, rng):
        from .c01 import rand_state, to_dev_state
        p = {"mode": "e2e", "device_id": rng.choice([rng.getrandbits(48), 147334558165565, 1, 2 ** 48 - 1, 0x010000000001]),
             "endian": ["little", "big"][j % 2], "state": to_dev_state(rand_state(rng))}
        if rng.random() < 0.5:
            p["account"] = "user+" + "".join(rng.choice("abc019") for _ in range(5)) + "@example.com"
            p["password"] = "".join(rng.choice(ACCOUNT_CHARS) for _ in range(8))
        if rng.random() < 0.3:
            p["faults"] = [rng.choice(["timeout", None]), rng.choice(["timeout", None]), None, None, rng.choice(["timeout", None])]
        p["ndev"] = rng.choice([1, 1, 2, 3])
        p["stagger"] = rng.choice([0, 1, 30])
        p["twice"] = rng.random() < 0.3
        if p["twice"]:
            p.pop("faults", None)
        p["silent_on_bad_token"] = rng.random() < 0.3
        want_overlap = rng.random() < 0.2
        if not p["twice"] and rng.random() < 0.25:
            # a one-off hard fault (HTTP 5xx / 4xx, API error, transport exception) on the k-th cloud request
            k = rng.choice([0, 1, 2, 2, 2, 3])
            p["faults"] = [None] * k + [rng.choice([["http", 500], ["http", 503], ["http", 404], ["http", 302], ["http", 307], ["api", 3004], ["api", 3102],
                                                    ["exc", "ConnectError"], ["exc", "RemoteProtocolError"]])]
            p["hard_fault"] = True
            p["ndev"] = 1
        if want_overlap and not p["twice"] and "faults" not in p:
            p["overlap"] = rng.choice([0.5, 2.0, 4.0, 5.5, 7.0])
            p["reply_delay"] = rng.choice([0.05, 1.0, 3.5, 4.5])     # slow units: answered late in the window
        return p
    sp.add("e2e", 1500 if tier == "quick" else 150_000, e2e)

    def relogin(j, rng):
        p = gen_select(j, rng)
        p["mode"] = "relogin"
        steps = ["login"]
        for _ in range(rng.randint(1, 4)):
            steps.append(rng.choice(["force", "force", "token", "login", "expire"]))
            if steps[-1] == "expire":
                if rng.random() < 0.5:
                    steps.append("token_on_expired_session")
                steps.append("force")
        steps.append("token")
        p["steps"] = steps
        return p
    sp.add("relogin", 1000 if tier == "quick" else 60_000, relogin)

    def overlap(j, rng):
        p = gen_select(j, rng)
        p["mode"] = "overlap"
        p["slow"] = rng.choice([0.5, 1.0, 3.0])
        p["lead"] = rng.choice([0.0, 0.01, 0.1])
        p["cancel"] = rng.choice([0.0, 0.05, 0.2, 0.45])
        if rng.random() < 0.5:
            p["other_udpid"] = rand_udpid(rng)
        return p
    sp.add("overlapping_calls_one_cancelled", 600 if tier == "quick" else 40_000, overlap)
    return sp
