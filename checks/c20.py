"""C20 - CLI control applies the documented meaning of each setting=value pair."""
import contextlib
import io
import os
import sys

from .common import REAL_BASE, STUB_BASE, Result, Space, SimDeadlock, SimStepLimit, World, rand_bytes, det_bytes
from .c01 import rand_state, to_dev_state
from refmodel.device import RefDevice
from refmodel.hosts import RefHost, good_reply
from simkit.world import run_sync

ID = "C20"
LEVEL = "exploration"
RULE = ("A case is an argv for `msmart-ng control <host> [--id --token --key] setting=value...` run through cli.main() on "
        "the simulated loop against a V2 or V3 reference device with a random initial state. Valid cases: every writable "
        "AirConditioner setting with enum members by name in random letter case or by value, raw fan integers, "
        "ints/floats, boolean spellings True/False/true/false/1/0, display_on; 1-3 settings per line (all pairs over "
        "time). Invalid cases: a catalogue of unknown / read-only / method / private names and ill-typed values, alone "
        "or next to a valid setting. Oracle: exit status, device state after = before + exactly the requested changes, "
        "display toggle on the wire iff the value differs, and for invalid cases no connection attempt at all. "
        "Distinct = distinct argv+initial state; non-trivial = every case."
        " Later additions: `control --auto` against a V2 unit (discovery inside the CLI, 5 s window) with a remote-control change of an unnamed setting inside the window; --capabilities against units without custom fan speeds (or that never answer the capability query) while an unnamed fan speed is reported.")
ASSUMPTIONS = [
    "an exception escaping cli.main() is what CPython turns into exit status 1: it counts as 'rejected with a non-zero "
    "exit' (e.g. operational_mode='fan only' -> SyntaxError, a setting without '=' -> ValueError)",
    "initial device states are drawn from the settable domain so that 'leave unspecified settings as reported' is "
    "well defined",
    "sys.argv, stdout/stderr are patched for the call; the event-loop policy hands cli's asyncio.run the simulated loop",
]
COMPONENTS = {"real": REAL_BASE + ["msmart.cli.main/_run/_control/_connect, argparse, asyncio.run", "AirConditioner API"],
              "stub": STUB_BASE + ["process boundary: cli.main() called in-process, exit() observed as SystemExit"]}

HOSTNAME = "10.9.8.7"
MODES = {"AUTO": 1, "COOL": 2, "DRY": 3, "HEAT": 4, "FAN_ONLY": 5, "SMART_DRY": 6}
FANS = {"AUTO": 102, "MAX": 100, "HIGH": 80, "MEDIUM": 60, "LOW": 40, "SILENT": 20}
SWINGS = {"OFF": 0, "VERTICAL": 0xC, "HORIZONTAL": 0x3, "BOTH": 0xF}
ANGLES = {"OFF": 0, "POS_1": 1, "POS_2": 25, "POS_3": 50, "POS_4": 75, "POS_5": 100}
RATES = {"OFF": 100, "GEAR_50": 50, "GEAR_75": 75, "LEVEL_1": 1, "LEVEL_2": 20, "LEVEL_3": 40, "LEVEL_4": 60, "LEVEL_5": 80}
AUX = {"OFF": 0, "AUX_HEAT": 1, "AUX_ONLY": 2}
BOOL_SETTINGS = {"power_state": "power", "eco": "eco", "turbo": "turbo", "sleep": "sleep", "fahrenheit": "fahrenheit",
                 "freeze_protection": "freeze", "follow_me": "follow_me", "purifier": "purifier",
                 "eco_mode": "eco", "turbo_mode": "turbo", "sleep_mode": "sleep", "freeze_protection_mode": "freeze"}
TRUE_SP = ["True", "true", "TRUE", "1"]
FALSE_SP = ["False", "false", "FALSE", "0"]

INVALID = [
    "bogus=1", "power=on", "temperature=20", "online=True", "supported=True", "indoor_temperature=20",
    "outdoor_temperature=1", "supported_fan_speeds=1", "min_target_temperature=10", "max_target_temperature=30",
    "supports_eco=True", "filter_alert=False", "self_clean_active=True", "refresh=1", "apply=1", "toggle_display=1",
    "_lan=1", "_power_state=True", "__init__=1", "to_dict=1", "id=5", "ip=1.2.3.4", "token=00", "key=00", "name=x",
    "operational_mode=warm", "operational_mode=9", "operational_mode=0", "swing_mode=sideways", "swing_mode=7",
    "aux_mode=3", "aux_mode=hot", "rate_select=33", "horizontal_swing_angle=2", "vertical_swing_angle=up",
    "fan_speed=fast", "power_state=maybe", "eco=yes", "beep=off", "target_temperature=warm", "target_temperature=",
    "target_humidity=wet", "display_on=dim", "turbo=", "operational_mode=", "operational_mode=fan only",
    "power_state", "=True", "eco=True=False", "total_energy_usage=1", "indoor_humidity=40", "supported_rate_selects=1",
    "type=172", "sn=abc", "version=3", "port=1", "FanSpeed=1", "OperationalMode=COOL",
]


def randcase(rng, s):
    return "".join(c.upper() if rng.random() < 0.5 else c.lower() for c in s)


def gen_setting(rng, cur):
    """-> (text, effect) ; effect = ('state', field, value) | ('prop', pid, bytes) | ('beep', bool) |
    ('display', bool) | ('none',)"""
    kind = rng.choice(["bool", "bool", "mode", "fan", "swing", "temp", "humidity", "aux", "beep", "display",
                       "angle", "rate", "breeze", "ieco", "clientonly"])
    if kind == "bool":
        name = rng.choice(sorted(BOOL_SETTINGS))
        v = rng.random() < 0.5
        return f"{name}={rng.choice(TRUE_SP if v else FALSE_SP)}", ("state", BOOL_SETTINGS[name], v)
    if kind == "mode":
        n = rng.choice(sorted(MODES))
        txt = randcase(rng, n) if rng.random() < 0.6 else str(MODES[n])
        return f"operational_mode={txt}", ("state", "mode", MODES[n])
    if kind == "fan":
        r = rng.random()
        if r < 0.4:
            n = rng.choice(sorted(FANS))
            return f"fan_speed={randcase(rng, n)}", ("state", "fan", FANS[n])
        if r < 0.6:
            n = rng.choice(sorted(FANS))
            return f"fan_speed={FANS[n]}", ("state", "fan", FANS[n])
        v = rng.randint(1, 101)
        return f"fan_speed={v}" + (".0" if rng.random() < 0.2 else ""), ("state", "fan", v)
    if kind == "swing":
        n = rng.choice(sorted(SWINGS))
        txt = randcase(rng, n) if rng.random() < 0.6 else str(SWINGS[n])
        return f"swing_mode={txt}", ("state", "swing", SWINGS[n])
    if kind == "temp":
        v = rng.randint(26, 87) / 2
        txt = str(int(v)) if v == int(v) and rng.random() < 0.5 else repr(v)
        return f"target_temperature={txt}", ("state", "temp", v)
    if kind == "humidity":
        v = rng.randint(0, 100)
        return f"target_humidity={v}", ("state", "humidity", v)
    if kind == "aux":
        n = rng.choice(sorted(AUX))
        txt = randcase(rng, n) if rng.random() < 0.6 else str(AUX[n])
        return f"aux_mode={txt}", ("aux", AUX[n])
    if kind == "beep":
        v = rng.random() < 0.5
        return f"beep={rng.choice(TRUE_SP if v else FALSE_SP)}", ("beep", v)
    if kind == "display":
        v = rng.random() < 0.5
        return f"display_on={rng.choice(TRUE_SP if v else FALSE_SP)}", ("display", v)
    if kind == "angle":
        which = rng.choice(["horizontal_swing_angle", "vertical_swing_angle"])
        n = rng.choice(sorted(ANGLES))
        txt = randcase(rng, n) if rng.random() < 0.6 else str(ANGLES[n])
        return f"{which}={txt}", ("prop", 0x000A if which.startswith("h") else 0x0009, bytes([ANGLES[n]]))
    if kind == "rate":
        n = rng.choice(sorted(RATES))
        txt = randcase(rng, n) if rng.random() < 0.6 else str(RATES[n])
        return f"rate_select={txt}", ("prop", 0x0048, bytes([RATES[n]]))
    if kind == "breeze":
        which = rng.choice(["breeze_away", "breezeless"])
        v = rng.random() < 0.5
        if which == "breeze_away":
            return f"breeze_away={rng.choice(TRUE_SP if v else FALSE_SP)}", ("prop", 0x0042, bytes([2 if v else 1]))
        return f"breezeless={rng.choice(TRUE_SP if v else FALSE_SP)}", ("prop", 0x0018, bytes([1 if v else 0]))
    if kind == "ieco":
        v = rng.random() < 0.5
        return f"ieco={rng.choice(TRUE_SP if v else FALSE_SP)}", ("prop", 0x00E3, bytes([1, 1 if v else 0]) + bytes(10))
    name = rng.choice(["use_alternate_energy_format", "enable_energy_usage_requests"])
    v = rng.random() < 0.5
    return f"{name}={rng.choice(TRUE_SP if v else FALSE_SP)}", ("none",)


def run(plan):
    w = World(seed=plan.get("seed", 0), max_iterations=8000)
    res = Result()
    cfg = plan["config"]
    version = cfg["version"]
    token = det_bytes(f"clitok{plan.get('seed')}", 64)
    key = det_bytes(f"clikey{plan.get('seed')}", 32)
    dev = RefDevice(version=version, device_id=cfg["device_id"], token=token, key=key, nonce_seed=b"cli")
    for k, v in cfg["state"].items():
        dev.state[k] = v
    if cfg.get("remote_during_toggle"):
        # while the CLI toggles the display, the remote control changes other settings: the state the CLI goes on
        # with is the one reported after the toggle
        dev.on_toggle_change = dict(cfg["remote_during_toggle"])
    if "caps_pages" in cfg:
        dev.caps_pages = [([(cid, bytes.fromhex(v)) for cid, v in recs], add) for recs, add in cfg["caps_pages"]]
    if cfg.get("chatty") and version == 3:
        # a device that prefixes every response with an unsolicited report of its current state (same segment)
        dev.default_directive = {"pre": ["unsol_state"]}
    w.net.listen(HOSTNAME, 6444, dev)
    auto = bool(cfg.get("auto")) and version == 2
    if auto:
        # `control --auto`: the CLI finds the unit by a discovery probe (5 s listening window) and connects to what
        # answered.  While the window is open somebody else (remote control, app) may change the unit: the settings
        # not named on the command line stay as the unit reports them when the CLI gets to work
        w.net.add_udp_host(HOSTNAME, RefHost(HOSTNAME, [(cfg.get("reply_delay", 0.01), 6445, good_reply(
            2, cfg["device_id"], HOSTNAME, 6444, "000000P0000000Q1%012X0000" % cfg["device_id"], "net_ac_%04X" % (cfg["device_id"] & 0xFFFF))
        )]))
        w.fire("cli_auto_discovery")
        if cfg.get("remote_during_discovery"):
            def _remote(changes=dict(cfg["remote_during_discovery"])):
                dev.state.update(changes)
                w.fire("remote_control_during_discovery_window")
            w.loop.call_later(cfg.get("remote_at", 2.5), _remote)
    before = dict(dev.state)
    before.update(cfg.get("remote_during_discovery") or {} if auto else {})
    props_before = dict(dev.props)
    argv = ["msmart-ng", "control", HOSTNAME]
    if auto:
        argv.append("--auto")
    elif version == 3 or cfg.get("give_id"):
        argv += ["--id", str(cfg["device_id"])]
    if version == 3 and not auto:
        argv += ["--token", token.hex(), "--key", key.hex()]
    if cfg.get("capabilities"):
        argv.append("--capabilities")
    argv += plan["settings"]
    status = {}

    def call():
        cli = w.ns.cli
        old_argv = sys.argv
        sys.argv = list(argv)
        try:
            with contextlib.redirect_stderr(io.StringIO()), contextlib.redirect_stdout(io.StringIO()):
                try:
                    cli.main()
                    status["code"] = 0
                    status["how"] = "returned"
                except SystemExit as e:
                    c = e.code
                    status["code"] = 0 if c is None else (c if isinstance(c, int) else 1)
                    status["how"] = "exit"
                except (SimDeadlock, SimStepLimit):
                    raise
                except Exception as e:
                    status["code"] = 1
                    status["how"] = "exception " + type(e).__name__
        finally:
            sys.argv = old_argv

    try:
        run_sync(w, call)
    except (SimDeadlock, SimStepLimit) as e:
        res.fail(f"liveness: {type(e).__name__}", str(e))
    if res.ok:
        effects = plan["effects"]
        if plan["valid"]:
            if status.get("code") != 0:
                res.fail(f"valid command line exited with status {status.get('code')} ({status.get('how')})", " ".join(argv[2:]))
            else:
                exp = dict(before)
                exp_props = dict(props_before)
                beep = None
                want_toggle = 0
                for e in effects:
                    if e[0] == "state":
                        exp[e[1]] = e[2]
                    elif e[0] == "aux":
                        exp["aux_heat"], exp["indep_aux"] = e[1] == 1, e[1] == 2
                    elif e[0] == "prop":
                        exp_props[e[1]] = bytes.fromhex(e[2]) if isinstance(e[2], str) else bytes(e[2])
                    elif e[0] == "beep":
                        beep = e[1]
                    elif e[0] == "display":
                        if e[1] != before["display_on"]:
                            want_toggle = 1
                            exp["display_on"] = e[1]
                            named = {x[1] for x in effects if x[0] == "state"}
                            for k2, v2 in (cfg.get("remote_during_toggle") or {}).items():
                                if k2 not in named:
                                    exp[k2] = v2
                if getattr(dev, "toggles", 0) != want_toggle:
                    res.fail("display toggle sent although the value equals the reported one" if want_toggle == 0
                             else "display toggle not sent although the value differs",
                             f"toggles {getattr(dev, 'toggles', 0)} for {' '.join(plan['settings'])}")
                else:
                    diff = {k: (dev.state[k], exp[k]) for k in exp if dev.state[k] != exp[k]}
                    if (set(diff) == {"fan"} and cfg.get("capabilities") and want_toggle == 1
                            and before["fan"] not in (20, 40, 60, 80, 100, 102) and dev.state["fan"] == 102
                            and not any(x[0] == "state" and x[1] == "fan" for x in effects)):
                        # recorded known finding: with --capabilities and a unit that did not advertise custom fan
                        # speeds, the forced refresh after the display toggle re-reads an unnamed fan speed as AUTO
                        # and the following apply() writes AUTO although fan_speed was not on the command line
                        res.fail("KF[toggle_reread_fan] unspecified fan speed rewritten as AUTO",
                                 f"{' '.join(plan['settings'])}: (got, expected) {diff}")
                    elif diff:
                        k0 = sorted(diff)[0]
                        res.fail(f"device state after the command differs from the documented meaning: {k0}",
                                 f"{' '.join(plan['settings'])}: (got, expected) {diff}")
                    else:
                        pd = {k: (dev.props.get(k), exp_props.get(k)) for k in set(exp_props) | set(dev.props)
                              if dev.props.get(k) != exp_props.get(k)}
                        if 0x00E3 in pd and dev.props.get(0x00E3, b"")[:2] == exp_props.get(0x00E3, b"x")[:2]:
                            pd.pop(0x00E3)
                        if pd:
                            res.fail("property store after the command differs from the documented meaning",
                                     f"{' '.join(plan['settings'])}: {pd}")
                        elif beep is not None and any(e[0] in ("state", "aux") for e in effects) and dev.controls and dev.controls[-1]["beep"] != beep:
                            res.fail("beep setting not applied to the control command", "")
                        elif dev.violations:
                            res.fail("device-side strict parser rejected a command: " + dev.violations[0][1], "")
        else:
            if status.get("code") == 0:
                res.fail("invalid setting accepted (exit status 0)", " ".join(plan["settings"]))
            elif w.net.connect_attempts or w.net.endpoints:
                res.fail("invalid setting rejected only after contacting the device",
                         f"{' '.join(plan['settings'])}: {len(w.net.connect_attempts)} connection attempts")
    res.take(w)
    res.add_fired(dev.fired)
    res.key = (" ".join(argv), repr(sorted(before.items())))
    res.nontrivial = True
    res.probes["exit_" + str(status.get("how", "?")).split(" ")[0]] = 1
    return res


def base_cfg(rng):
    st = to_dev_state(rand_state(rng))
    st["display_on"] = rng.random() < 0.5
    return {"version": rng.choice([2, 3]), "device_id": rng.getrandbits(47) + 1, "state": st,
            "give_id": rng.random() < 0.5, "capabilities": rng.random() < 0.15, "chatty": rng.random() < 0.4}


def space(tier):
    sp = Space(ID)

    def valid(j, rng):
        cfg = base_cfg(rng)
        n = rng.choice([1, 2, 2, 3])
        seen = set()
        settings, effects = [], []
        while len(settings) < n:
            txt, eff = gen_setting(rng, cfg["state"])
            name = txt.split("=")[0]
            canon = BOOL_SETTINGS.get(name, name)
            if canon in seen or (name in ("breeze_away", "breezeless") and {"breeze_away", "breezeless"} & seen):
                continue
            seen.add(canon)
            settings.append(txt)
            effects.append([eff[0]] + [x.hex() if isinstance(x, bytes) else x for x in eff[1:]])
        if any(e[0] == "display" for e in effects) and rng.random() < 0.3:
            st = cfg["state"]
            cfg["remote_during_toggle"] = {k: (not st[k]) for k in rng.sample(["freeze", "eco", "sleep", "purifier", "power"], rng.randint(1, 2))}
        if cfg["version"] == 2 and j % 8 == 5:
            # every eighth V2 case goes through `--auto` (discovery inside the CLI); in two of three of those the
            # remote control changes the unit somewhere inside the discovery window
            cfg["auto"] = True
            cfg["reply_delay"] = [0.01, 0.4, 2.0][(j // 8) % 3]
            if True:
                st = cfg["state"]
                named = {e[1] for e in effects if e[0] == "state"} | ({"aux_heat", "indep_aux"} if any(e[0] == "aux" for e in effects) else set())
                pool = [k for k in ["freeze", "eco", "sleep", "purifier", "power", "display_on"] if k not in named]
                if (j // 24) % 3 != 0 and pool:
                    ks = [pool[(j // 72) % len(pool)]]
                    cfg["remote_during_discovery"] = {k: (not st[k]) for k in ks}
                    cfg["remote_at"] = [0.2, 1.0, 2.5, 4.0, 4.9][(j // 8) % 5]
        if cfg["capabilities"] and any(e[0] not in ("state", "display") for e in effects):
            cfg["capabilities"] = False      # keep property ids independent of a capability profile
        elif cfg["capabilities"] or (all(e[0] in ("state", "display") for e in effects) and rng.random() < 0.2):
            # --capabilities with a unit that does not advertise custom fan speeds (or anything about fan speeds)
            # while it runs at a speed without a name: what was not mentioned on the command line stays as reported
            cfg["capabilities"] = True
            cfg["caps_pages"] = [[rng.choice([[[0x0214, "01"], [0x0215, "01"]], [[0x0210, "07"], [0x0214, "01"]],
                                              [[0x0210, "05"], [0x0212, "01"]], [[0x0210, "01"]]]), None]]
            if rng.random() < 0.2:
                cfg["caps_pages"] = []          # older firmware: the capability query is never answered
        return {"config": cfg, "settings": settings, "effects": effects, "valid": True}
    sp.add("valid", 12000 if tier == "quick" else 800_000, valid)

    def invalid(j, rng):
        cfg = base_cfg(rng)
        bad = INVALID[j % len(INVALID)]
        settings = [bad]
        k = (j // len(INVALID)) % 3
        if k:
            txt, _eff = gen_setting(rng, cfg["state"])
            settings = [txt, bad] if k == 1 else [bad, txt]
        return {"config": cfg, "settings": settings, "effects": [], "valid": False}
    sp.add("invalid", len(INVALID) * (6 if tier == "quick" else 300), invalid, exhaustive=True)
    return sp
