"""Shared helpers for the per-property checks."""
import hashlib
import itertools

from refmodel import acmodel, codec
from refmodel.device import RefDevice
from simkit.loop import TICK, SimDeadlock, SimStepLimit, quantize
from simkit.runner import Result, Space
from simkit.world import World, capture

REAL_BASE = [
    "msmart (imported unmodified from /repo working tree)",
    "CPython 3.12 asyncio Task/Future/Queue/wait_for/timeouts/gather/Lock",
    "pycryptodome AES, hashlib (primitives, used by both sides)",
]
STUB_BASE = [
    "event loop selector + clock (SimLoop: virtual time, never blocks)",
    "TCP/UDP sockets and kernel (SimNet/SimTransport reproducing the asyncio.Transport contract)",
    "the air conditioner (RefDevice reference model, independent of msmart)",
    "wall clock datetime.now()/time.time() (SimClock via module attribute seams)",
    "Crypto.Random.get_random_bytes / secrets (seeded streams)",
]

HOST = "10.0.0.5"
PORT = 6444

ID_POOL = [0, 1, 255, 256, 65535, 65536, 2 ** 32 - 1, 2 ** 32, 2 ** 40, 2 ** 48 - 1, 2 ** 48, 2 ** 56 + 5,
           2 ** 63, 2 ** 64 - 1, 0x0102030405060708, 15393162840672, 147334558165565]


def rand_id(rng, bits64=True):
    r = rng.random()
    if r < 0.4:
        return rng.choice(ID_POOL)
    if r < 0.6:
        # single byte set
        return rng.randrange(1, 256) << (8 * rng.randrange(8))
    return rng.getrandbits(64 if bits64 else 48)


def det_bytes(label, n):
    out = b""
    c = 0
    while len(out) < n:
        out += hashlib.sha256(f"{label}|{c}".encode()).digest()
        c += 1
    return out[:n]


def rand_bytes(rng, n):
    return bytes(rng.getrandbits(8) for _ in range(n)) if n else b""


def mk_credentials(rng):
    token = rand_bytes(rng, 64)
    key = rand_bytes(rng, 32)
    return token, key


def choose_cuts(rng, n, style=None):
    """Cut directive for a message of unknown length: offsets are taken modulo the length."""
    style = style or rng.choice(["none", "none", "one", "few", "many", "all"])
    if style == "none":
        return None
    if style == "one":
        return [rng.randrange(1, 4096)]
    if style == "few":
        return sorted(rng.randrange(1, 4096) for _ in range(rng.randint(2, 3)))
    if style == "many":
        return sorted(rng.randrange(1, 4096) for _ in range(rng.randint(4, 40)))
    return "all"


def combos_upto(n_positions, k):
    """All cut placements with <= k cuts among positions 1..n_positions, in a fixed order."""
    out = [()]
    for r in range(1, k + 1):
        out.extend(itertools.combinations(range(1, n_positions + 1), r))
    return out


def n_combos_upto(n_positions, k):
    import math
    return sum(math.comb(n_positions, r) for r in range(0, k + 1))


def nth_combo_upto(n_positions, k, idx):
    """idx-th placement in the order of combos_upto without materialising the list."""
    import math
    for r in range(0, k + 1):
        c = math.comb(n_positions, r)
        if idx < c:
            # unrank combination idx of size r from range(1..n)
            combo = []
            x = 1
            rem = r
            while rem > 0:
                cnt = math.comb(n_positions - x, rem - 1)
                if idx < cnt:
                    combo.append(x)
                    rem -= 1
                else:
                    idx -= cnt
                x += 1
            return tuple(combo)
        idx -= c
    raise IndexError


def exc_sig(o):
    return f"{o.exc_type}"
