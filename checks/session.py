"""Plan interpreter shared by the LAN / device level checks.

A plan is  {"config": {...}, "ops": [ {...}, ... ]}.  `Session` builds the world (loop, net,
clock, seams, reference device, client objects) from config and executes ops one at a time;
each op may carry fault directives ("net" per data transmission, "hs" per handshake, "conn"
per connect attempt) that are loaded into the device just before the op and discarded after.
"""
import asyncio

from refmodel import acmodel, codec
from refmodel.device import RefDevice
from simkit.world import World, capture

from .common import HOST, PORT, det_bytes

HOST2 = "10.0.0.77"

CLIENT_ATTRS = ("power_state", "operational_mode", "target_temperature", "fan_speed", "swing_mode", "eco",
                "turbo", "sleep", "fahrenheit", "freeze_protection", "follow_me", "purifier",
                "target_humidity", "aux_mode", "display_on", "filter_alert", "indoor_temperature",
                "outdoor_temperature")

SNAPSHOT_ATTRS = CLIENT_ATTRS + (
    "indoor_humidity", "total_energy_usage", "current_energy_usage", "real_time_power_usage",
    "horizontal_swing_angle", "vertical_swing_angle", "rate_select", "breeze_away", "breeze_mild",
    "breezeless", "ieco", "self_clean_active", "beep", "min_target_temperature", "max_target_temperature",
    "supported_operation_modes", "supported_swing_modes", "supported_fan_speeds", "supports_custom_fan_speed",
    "supports_eco", "supports_turbo", "supports_freeze_protection", "supports_display_control",
    "supports_filter_reminder", "supports_purifier", "supports_humidity", "supports_target_humidity",
    "supports_self_clean", "supported_rate_selects", "supported_aux_modes", "supports_breeze_away",
    "supports_breeze_mild", "supports_breezeless", "supports_ieco", "supports_horizontal_swing_angle",
    "supports_vertical_swing_angle", "enable_energy_usage_requests")

SET_MAP = {   # client attribute -> device state field
    "power_state": "power", "operational_mode": "mode", "target_temperature": "temp", "fan_speed": "fan",
    "swing_mode": "swing", "eco": "eco", "turbo": "turbo", "sleep": "sleep", "fahrenheit": "fahrenheit",
    "freeze_protection": "freeze", "follow_me": "follow_me", "purifier": "purifier",
    "target_humidity": "humidity",
}


def snapshot(ac):
    out = {}
    for a in SNAPSHOT_ATTRS:
        v = getattr(ac, a)
        if isinstance(v, list):
            v = [int(x) for x in v]
        elif isinstance(v, bool) or v is None:
            pass
        elif isinstance(v, float):
            pass
        else:
            try:
                v = int(v)
            except (TypeError, ValueError):
                v = repr(v)
        out[a] = v
    return out


def aux_mode_value(st):
    return 2 if st["indep_aux"] else (1 if st["aux_heat"] else 0)


def project(st, state_len=24):
    """What a client must expose after refreshing against a device in state `st` (sensor values
    are checked relationally elsewhere)."""
    mode = st["mode"] if 1 <= st["mode"] <= 6 else 5
    swing = st["swing"] if st["swing"] in (0, 3, 0xC, 0xF) else 0
    exp = {
        "power_state": st["power"], "operational_mode": mode, "target_temperature": float(st["temp"]),
        "fan_speed": st["fan"], "swing_mode": swing, "eco": st["eco"], "turbo": st["turbo"],
        "sleep": st["sleep"], "fahrenheit": st["fahrenheit"], "follow_me": st["follow_me"],
        "purifier": st["purifier"], "aux_mode": aux_mode_value(st), "display_on": st["display_on"],
        "filter_alert": st["filter_alert"],
    }
    if state_len >= 20:
        exp["target_humidity"] = st["humidity"]
    if state_len >= 22:
        exp["freeze_protection"] = st["freeze"]
    return exp


ALIASES = {"eco": "eco_mode", "turbo": "turbo_mode", "sleep": "sleep_mode", "freeze_protection": "freeze_protection_mode"}


def compare_view(ac, st, state_len=24, skip=()):
    """Return list of (attr, got, expected) mismatches between client attributes and device state."""
    exp = project(st, state_len)
    for new, old in ALIASES.items():
        if new in exp:
            exp[old] = exp[new]          # the older public names must read the same value
    bad = []
    for k, v in exp.items():
        if k in skip:
            continue
        got = getattr(ac, k)
        if isinstance(v, bool):
            ok = (got is v) or (got == v and isinstance(got, bool))
        elif isinstance(v, float):
            ok = got is not None and float(got) == v
        else:
            ok = got is not None and int(got) == v
        if not ok:
            bad.append((k, repr(got), repr(v)))
    for name, raw, tenths in (("indoor_temperature", st["indoor_raw"], st["indoor_tenths"]),
                              ("outdoor_temperature", st["outdoor_raw"], st["outdoor_tenths"])):
        if name in skip:
            continue
        msg = acmodel.sensor_ok(getattr(ac, name), raw, tenths, st["fahrenheit"])
        if msg:
            bad.append((name, repr(getattr(ac, name)), msg))
    return bad


class Session:
    def __init__(self, plan, max_iterations=20_000):
        cfg = plan.get("config", {})
        self.plan = plan
        self.cfg = cfg
        seed = plan.get("seed", 0)
        self.world = World(seed=seed, epoch=tuple(cfg.get("epoch", (2024, 5, 17, 10, 20, 30, 123456))),
                           msg_id_start=cfg.get("msg_id_start", 0), max_iterations=max_iterations)
        if cfg.get("tz"):
            self.world.clock.tz = dict(cfg["tz"])
            self.world.fire("host_zone_with_dst_change")
        self.version = cfg.get("version", 2)
        self.device_id = cfg.get("device_id", 0x1122334455)
        self.token = bytes.fromhex(cfg["token"]) if cfg.get("token") else det_bytes(f"tok{seed}", 64)
        self.key = bytes.fromhex(cfg["key"]) if cfg.get("key") else det_bytes(f"key{seed}", 32)
        self.dev = RefDevice(version=self.version, device_id=self.device_id, token=self.token, key=self.key,
                             nonce_seed=f"nonce{seed}".encode())
        for k, v in cfg.get("state", {}).items():
            self.dev.state[k] = v
        if "state_len" in cfg:
            self.dev.state_len = cfg["state_len"]
        if "check_style" in cfg:
            self.dev.check_style = cfg["check_style"]
        if "caps_pages" in cfg:
            self.dev.caps_pages = [([(cid, bytes.fromhex(v)) for cid, v in recs], add) for recs, add in cfg["caps_pages"]]
        if "props" in cfg:
            self.dev.props = {int(k): bytes.fromhex(v) for k, v in cfg["props"].items()}
        if "energy" in cfg:
            self.dev.energy = bytes.fromhex(cfg["energy"])
        if "humidity_data" in cfg:
            self.dev.humidity = bytes.fromhex(cfg["humidity_data"])
        self.host = cfg.get("host", HOST)          # e.g. an IPv6 literal
        self.world.net.listen(self.host, PORT, self.dev)
        self.clients = []
        self.outcomes = []
        # an unrelated second device with its own client object, polled and set by a background task while the
        # plan's ops run: nothing that happens to one pair may show on the other
        self.dev2 = None
        self.by_task = None
        self.by_bad = []
        self.by_rounds = 0
        self.by_stop = False
        b = cfg.get("bystander")
        if b:
            if any(isinstance(o, dict) and o.get("op") == "jump" for o in plan.get("ops", [])):
                # a wall-clock step of 12 h landing inside the one-second pause that follows a handshake trips an
                # `assert` in LAN.send (observation in DESIGN 14.4; outside every property's quantifier): the
                # background pair speaks V2 when the plan steps the clock
                b = dict(b, version=2)
            self.dev2 = RefDevice(version=b.get("version", 2), device_id=(self.device_id ^ 0x5A5A5A) or 7,
                                  token=det_bytes(f"tok2{seed}", 64), key=det_bytes(f"key2{seed}", 32),
                                  nonce_seed=f"nonce2{seed}".encode())
            for k, v in b.get("state", {}).items():
                self.dev2.state[k] = v
            self.world.net.listen(HOST2, PORT, self.dev2)

    # --- client construction (inside the loop) ---------------------------------------------
    def make_clients(self):
        ns = self.world.ns
        n = self.cfg.get("clients", 1)
        for _ in range(n):
            self.clients.append(ns.AC(ip=self.host, port=PORT, device_id=self.device_id))
        if self.dev2 is not None and self.by_task is None:
            self.by_client = ns.AC(ip=HOST2, port=PORT, device_id=self.dev2.device_id)
            self.by_task = self.world.loop.create_task(self._bystander())
            self.world.fire("second_device_and_client_alive")
        return self.clients

    async def _bystander(self):
        ac, dev2, w = self.by_client, self.dev2, self.world
        b = self.cfg["bystander"]
        period = b.get("period", 0.7)
        try:
            if dev2.version == 3:
                await ac.authenticate(dev2.token.hex(), dev2.key.hex())
            i = 0
            while i < b.get("max_rounds", 40) and not self.by_stop:
                if i % 2:
                    dev2.state["power"] = not dev2.state["power"]
                    dev2.state["temp"] = 17.0 + (i * 3 % 26) / 2.0
                    dev2.state["eco"] = (i % 4 == 1)
                await ac.refresh()
                bad = compare_view(ac, dev2.state, dev2.state_len)
                if bad or not ac.online:
                    self.by_bad.append(f"round {i}: refresh view differs in {bad[:2]!r} online={ac.online}")
                    return
                if i % 3 == 2:
                    ac.target_temperature = 18.0 + (i % 20) / 2.0
                    ac.turbo = (i % 2 == 0)
                    await ac.apply()
                    if dev2.state["temp"] != ac.target_temperature or dev2.state["turbo"] != (i % 2 == 0):
                        self.by_bad.append(f"round {i}: apply did not reach the second device")
                        return
                self.by_rounds += 1
                i += 1
                await asyncio.sleep(period)
        except asyncio.CancelledError:
            raise
        except Exception as e:      # noqa: BLE001 - anything escaping on the unaffected pair is the finding
            self.by_bad.append(f"{type(e).__name__}: {e}")

    def with_bystander(self, body, res):
        """Wrap a check's main coroutine: afterwards the background pair is stopped and judged."""
        async def main(w):
            await body(w)
            bad = await self.stop_bystander()
            if bad and res.ok:
                res.fail("an unrelated second device/client pair in the same process was affected", bad)
        return main

    async def stop_bystander(self):
        """Stop the background pair; returns a description of what went wrong on it (or None)."""
        if self.by_task is None:
            return None
        # let the current round finish (cancelling an exchange is a fault of its own, C08's subject)
        self.by_stop = True
        await self.by_task
        if self.dev2.violations and not self.by_bad:
            self.by_bad.append(f"second device rejected client traffic: {self.dev2.violations[0][:2]!r}")
        if self.by_rounds:
            self.world.probe("bystander_rounds", self.by_rounds)
        return self.by_bad[0] if self.by_bad else None

    def creds(self, kind="good"):
        tok, key = self.token, self.key
        if kind == "bad_token":
            tok = bytes([tok[0] ^ 0x55]) + tok[1:]
        elif kind == "bad_key":
            key = bytes([key[0] ^ 0x55]) + key[1:]
        form = self.cfg.get("cred_form", "hex")
        if form == "hex":
            return tok.hex(), key.hex()
        if form == "hex_bytes":
            return tok.hex(), key               # the two arguments need not come in the same form
        if form == "bytes_hex":
            return tok, key.hex()
        return tok, key

    def load_directives(self, op):
        self.dev.script = [dict(d) for d in op.get("net", [])]
        self.dev.hs_script = [dict(d) for d in op.get("hs", [])]
        self.dev.conn_script = [list(c) for c in op.get("conn", [])]

    def clear_directives(self):
        self.dev.script = []
        self.dev.hs_script = []
        self.dev.conn_script = []

    async def do(self, op):
        """Execute one op; returns Outcome (or None for harness-side ops)."""
        w = self.world
        kind = op["op"]
        c = self.clients[op.get("c", 0) % len(self.clients)] if self.clients else None
        w.note("op", kind, op.get("c", 0))
        self.load_directives(op)
        o = None
        cancel = op.get("cancel")
        if kind == "refresh":
            o = await capture(w, c.refresh(), cancel_after=cancel)
        elif kind == "apply":
            for attr, val in op.get("set", {}).items():
                self.set_attr(c, attr, val)
            o = await capture(w, c.apply(), cancel_after=cancel)
        elif kind == "auth":
            tok, key = self.creds(op.get("cred", "good"))
            o = await capture(w, c.authenticate(tok, key), cancel_after=cancel)
        elif kind == "caps":
            o = await capture(w, c.get_capabilities(), cancel_after=cancel)
        elif kind == "toggle":
            o = await capture(w, c.toggle_display(), cancel_after=cancel)
        elif kind == "selfclean":
            o = await capture(w, c.start_self_clean(), cancel_after=cancel)
        elif kind == "send":
            o = await capture(w, c._lan.send(bytes.fromhex(op["frame"]), retries=op.get("retries", 3)),
                              cancel_after=cancel)
        elif kind == "lan_auth":
            tok, key = self.creds(op.get("cred", "good"))
            o = await capture(w, c._lan.authenticate(tok, key), cancel_after=cancel)
        elif kind == "idle":
            await asyncio.sleep(op.get("d", 1.0))
        elif kind == "jump":
            w.clock.jump(op["s"])
            w.fire("clock_jump")
        elif kind == "lifetime":
            c.set_max_connection_lifetime(op["s"])
        elif kind == "dev_change":
            for k, v in op.get("set", {}).items():
                self.dev.state[k] = v
            w.fire("device_side_change")
        elif kind == "dev_partial":
            # the device starts an unsolicited report and sends only its first k bytes for now
            for conn in w.net.conns:
                if conn.open and conn.server is self.dev:
                    self.dev.send_partial_unsolicited(conn, op.get("k", 10))
            await asyncio.sleep(0.01)
        elif kind == "dev_burst":
            # the unit pushes n unsolicited status reports while nobody is reading (they pile up unread)
            for conn in w.net.conns:
                if conn.open and conn.server is self.dev:
                    key = conn.state["keys"][-1] if conn.state.get("keys") else None
                    if self.dev.version == 3 and key is None:
                        continue
                    for _ in range(op.get("n", 40)):
                        conn.send(self.dev.wrap(conn, self.dev.state_frame(ftype=acmodel.FT_REPORT), key), lat=1 / 1024)
                    w.fire("burst_of_unsolicited_reports_while_idle")
            await asyncio.sleep(op.get("d", 0.2))
        elif kind == "dev_close":
            for conn in w.net.conns:
                if conn.open and conn.server is self.dev:
                    conn.close(rst=bool(op.get("rst")))
                    w.fire("fin_idle" if not op.get("rst") else "rst_idle")
            # TCP is FIFO: the close is delivered after everything already in flight; wait for it
            last = max([c._last_sched for c in w.net.conns if c.server is self.dev] + [w.loop.time()])
            await asyncio.sleep(max(0.0, last - w.loop.time()) + 0.01)
        else:
            raise ValueError(f"unknown op {kind}")
        self.clear_directives()
        self.outcomes.append(o)
        w.note("op_end", kind, repr(o.kind if o else None), o.exc_type if o else None)
        return o

    def set_attr(self, c, attr, val):
        AC = self.world.ns.AC
        if attr == "operational_mode":
            val = AC.OperationalMode(val)
        elif attr == "swing_mode":
            val = AC.SwingMode(val)
        elif attr == "aux_mode":
            val = AC.AuxHeatMode(val)
        elif attr == "fan_speed":
            try:
                val = AC.FanSpeed(val)
            except ValueError:
                pass
        elif attr in ("horizontal_swing_angle", "vertical_swing_angle"):
            val = AC.SwingAngle(val)
        elif attr == "rate_select":
            val = AC.RateSelect(val)
        setattr(c, attr, val)
