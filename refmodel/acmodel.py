"""Reference model of a Midea air conditioner's application layer.

Independent of msmart.  Control (0x40) decode and state (0xC0) encode follow the vendor Lua
T_0000_AC_00000Q14_2024013001.lua (jsonToData lines 3286-3445, binToModel lines 1664-1836),
inverted: the Lua encodes the control and decodes the report; a device does the opposite.
Deviations / choices are listed in DESIGN.md section 5.3.
"""
from . import codec

FT_CONTROL = 0x02
FT_QUERY = 0x03
FT_REPORT = 0x04
FT_NOTIFY5 = 0x05

STATE_FIELDS = ("power", "mode", "temp", "fan", "swing", "eco", "turbo", "sleep", "fahrenheit",
                "freeze", "follow_me", "purifier", "humidity", "aux_heat", "indep_aux")


def default_state():
    return {
        "power": False, "mode": 2, "temp": 24.0, "fan": 102, "swing": 0,
        "eco": False, "turbo": False, "sleep": False, "fahrenheit": False, "freeze": False,
        "follow_me": False, "purifier": False, "humidity": 40, "aux_heat": False,
        "indep_aux": False,
        # not settable through the control command
        "display_on": True, "filter_alert": False,
        "indoor_raw": 0x60, "outdoor_raw": 0x5A, "indoor_tenths": 0, "outdoor_tenths": 0,
        "pmv": 0, "err": 0,
    }


def decode_control(body):
    """Vendor-layout decode of a 0x40 control body (without message id / CRC).

    Returns the dict of settable fields plus 'beep'.  Raises codec.RefError if malformed.
    """
    b = bytes(body)
    if len(b) < 23 or b[0] != 0x40:
        raise codec.RefError("not a control body")
    st = {}
    st["power"] = bool(b[1] & 0x01)
    st["beep"] = bool(b[1] & 0x40)
    st["mode"] = (b[2] & 0xE0) >> 5
    half = bool(b[2] & 0x10)
    alt = b[18] & 0x1F
    if alt:
        t = alt + 12                      # property text: 13..43 C <-> codes 1..31
    else:
        t = (b[2] & 0x0F) + 16
    st["temp"] = t + (0.5 if half else 0.0)
    st["fan"] = b[3] & 0x7F
    st["swing"] = b[7] & 0x0F
    st["turbo"] = bool(b[8] & 0x20) or bool(b[10] & 0x02)
    st["turbo_bits"] = (bool(b[8] & 0x20), bool(b[10] & 0x02))
    st["follow_me"] = bool(b[8] & 0x80)
    st["eco"] = bool(b[9] & 0x80)
    st["purifier"] = bool(b[9] & 0x20)
    st["aux_heat"] = bool(b[9] & 0x08)
    st["sleep"] = bool(b[10] & 0x01)
    st["fahrenheit"] = bool(b[10] & 0x04)
    st["humidity"] = b[19] & 0x7F
    st["freeze"] = bool(b[21] & 0x80)
    st["indep_aux"] = bool(b[22] & 0x08)
    # bits that must be clear / fixed for a well-formed app control
    st["_client_mobile"] = bool(b[1] & 0x02)
    st["_primary_code"] = b[2] & 0x0F
    st["_alt_code"] = alt
    st["_swing_hi"] = b[7] & 0xF0
    st["_spurious"] = {
        "b1": b[1] & ~0x43 & 0xFF, "b8": b[8] & ~0xA0 & 0xFF, "b9": b[9] & ~0xB8 & 0xFF,
        "b10": b[10] & ~0x07 & 0xFF, "b18": b[18] & ~0x1F & 0xFF, "b19": b[19] & 0x80,
        "b21": b[21] & 0x7F, "b22": b[22] & ~0x08 & 0xFF,
        "zeros": bytes(b[11:18]) + bytes([b[20]]) + bytes(b[23:]),
    }
    return st


def encode_state(st, length=24, frac_style="default"):
    """0xC0 report body (without message id / check byte) for a state dict."""
    b = bytearray(max(length, 16))
    b[0] = 0xC0
    b[1] = 0x01 if st["power"] else 0x00
    t = st["temp"]
    ti = int(t)
    half = 0x10 if (t - ti) >= 0.5 else 0
    if 17 <= ti <= 30:
        prim, alt = ti - 16, 0
    else:
        # real devices clamp the primary code and carry the true set-point in the alternate code
        prim, alt = (1 if ti < 17 else 14), (ti - 12) & 0x1F
    b[2] = ((st["mode"] & 7) << 5) | half | prim
    b[3] = st["fan"] & 0xFF
    b[4] = 0x7F
    b[5] = 0x7F
    b[6] = 0x00
    b[7] = 0x30 | (st["swing"] & 0x0F)
    tb = st.get("turbo_report", "both")      # which of the two vendor turbo flags the device raises
    b[8] = (0x20 if st["turbo"] and tb in ("both", "b8") else 0) | (0x40 if st["indep_aux"] else 0) | (0x80 if st["follow_me"] else 0)
    b[9] = (0x10 if st["eco"] else 0) | (0x20 if st["purifier"] else 0) | (0x08 if st["aux_heat"] else 0)
    b[10] = (0x01 if st["sleep"] else 0) | (0x02 if st["turbo"] and tb in ("both", "b10") else 0) | (0x04 if st["fahrenheit"] else 0)
    # functions this client does not model (cosy sleep, power saving, low-frequency fan / child sleep, natural wind,
    # dry clean, and the two top bits of byte 9) may be active on the unit: set from the remote control
    sp = st.get("spare") or {}
    b[8] |= int(sp.get("8", sp.get(8, 0))) & 0x1B
    b[9] |= int(sp.get("9", sp.get(9, 0))) & 0xC7
    b[11] = st["indoor_raw"] & 0xFF
    b[12] = st["outdoor_raw"] & 0xFF
    b[13] = alt | (0x20 if st["filter_alert"] else 0)
    b[14] = (0x00 if st["display_on"] else 0x70) | (st.get("pmv", 0) & 0x0F)
    b[15] = (st["indoor_tenths"] & 0xF) | ((st["outdoor_tenths"] & 0xF) << 4)
    if len(b) > 16:
        b[16] = st.get("err", 0)
    if len(b) > 19:
        b[19] = st["humidity"] & 0x7F
    if len(b) > 21:
        b[21] = 0x80 if st["freeze"] else 0
    return bytes(b[:max(length, 16)])


def expected_temperature(raw, tenths, fahrenheit):
    """Property C11's relational spec for a sensor reading -> (is_unknown, coarse)."""
    if raw == 0xFF:
        return True, None
    return False, (raw - 50) / 2


def sensor_ok(value, raw, tenths, fahrenheit):
    """Check an exposed sensor value against C11's statement. Returns None or a message."""
    if raw == 0xFF:
        return None if value is None else f"0xFF sentinel must be unknown, got {value!r}"
    if value is None:
        return f"raw 0x{raw:02x} is not the sentinel but value is unknown"
    if tenths > 9:
        return None          # not a digit: outside the property's quantifier (only the sentinel rule applies)
    coarse = (raw - 50) / 2
    if abs(value - coarse) > 1.0 + 1e-9:
        return f"value {value} more than one degree from coarse {coarse}"
    if value * coarse < 0 or (coarse == 0 and value < 0):
        # a reading of -0.x is reported with the coarse byte of -0.5, never with that of 0.0 or above
        return f"value {value} has the opposite sign of the coarse reading {coarse}"
    if not fahrenheit and 0 < tenths <= 9:
        digit = int(round(abs(value) * 10)) % 10
        if abs(abs(value) * 10 - round(abs(value) * 10)) > 1e-6 or digit != tenths:
            return f"celsius tenths digit {tenths} not reflected in {value}"
    return None


# ------------------------------------------------------------------------------------------
# property protocol (B0 / B1) and capabilities (B5)

PID_SWING_UD = 0x0009
PID_SWING_LR = 0x000A
PID_BREEZELESS = 0x0018
PID_BUZZER = 0x001A
PID_SELF_CLEAN = 0x0039
PID_BREEZE_AWAY = 0x0042
PID_BREEZE_CONTROL = 0x0043
PID_RATE_SELECT = 0x0048
PID_IECO = 0x00E3


def parse_b1_query(body):
    b = bytes(body)
    if len(b) < 2 or b[0] != 0xB1:
        raise codec.RefError("not a B1 query")
    n = b[1]
    if len(b) != 2 + 2 * n:
        raise codec.RefError(f"B1 query: count {n} does not match length {len(b)}")
    return [b[2 + 2 * i] | (b[3 + 2 * i] << 8) for i in range(n)]


def parse_b0_set(body):
    b = bytes(body)
    if len(b) < 2 or b[0] != 0xB0:
        raise codec.RefError("not a B0 set")
    n = b[1]
    out = []
    p = 2
    for _ in range(n):
        if p + 3 > len(b):
            raise codec.RefError("B0 set: truncated record header")
        pid = b[p] | (b[p + 1] << 8)
        ln = b[p + 2]
        if p + 3 + ln > len(b):
            raise codec.RefError("B0 set: truncated record value")
        out.append((pid, b[p + 3:p + 3 + ln]))
        p += 3 + ln
    if p != len(b):
        raise codec.RefError("B0 set: trailing bytes")
    return out


def build_prop_reply(rid, items):
    """items: [(pid, result, value_bytes)] -> body (without msg id / check)."""
    out = bytearray([rid, len(items)])
    for pid, result, val in items:
        out += bytes([pid & 0xFF, pid >> 8, result, len(val)]) + bytes(val)
    return bytes(out)


def build_b5(records, additional=None, count=None):
    """records: [(cap_id, value_bytes)] -> body. additional None => no 'additional' flag byte."""
    out = bytearray([0xB5, len(records) if count is None else count])
    for cid, val in records:
        out += bytes([cid & 0xFF, cid >> 8, len(val)]) + bytes(val)
    if additional is not None:
        # the flag is a byte: any non-zero value announces a further page (True/False = 1/0)
        out += bytes([additional & 0xFF if isinstance(additional, int) and not isinstance(additional, bool)
                      else (1 if additional else 0)])    # followed by the message id, then the check byte
    return bytes(out)


def prop_store_value_for_read(pid, store):
    """What the device reports in a B1 reply for property pid."""
    return store.get(pid, default_prop_value(pid))


def default_prop_value(pid):
    if pid == PID_BREEZE_AWAY:
        return bytes([1])
    if pid == PID_BREEZE_CONTROL:
        return bytes([1])
    if pid == PID_RATE_SELECT:
        return bytes([100])
    if pid == PID_IECO:
        return bytes([1, 0, 0, 0, 0, 0, 0, 0, 0, 0, 0, 0])   # number, switch, ...
    return bytes([0])


def apply_prop_set(pid, value, store, legacy_exclusive=True):
    """Device-side handling of one B0 record; returns (result, reply_value)."""
    v = bytes(value)
    if pid == PID_IECO:
        # set = [frame, number, switch, 10 x 0] ; report = [number, switch, ...]
        if len(v) < 3:
            return 0x11, v
        store[pid] = bytes([v[1], v[2]]) + bytes(10)
        return 0x00, store[pid]
    if pid == PID_BUZZER:
        return 0x00, v
    if len(v) < 1:
        return 0x11, v
    store[pid] = v[:1]
    if legacy_exclusive:
        # a device activating one legacy breeze mode deactivates the other
        if pid == PID_BREEZE_AWAY and v[0] == 2 and PID_BREEZELESS in store:
            store[PID_BREEZELESS] = bytes([0])
        if pid == PID_BREEZELESS and v[0] == 1 and PID_BREEZE_AWAY in store:
            store[PID_BREEZE_AWAY] = bytes([1])
    return 0x00, store[pid]


def group_body(group, data):
    """C1 group-data response body: C1 21 01 4<g> + data."""
    return bytes([0xC1, 0x21, 0x01, 0x40 | (group & 0xF)]) + bytes(data)


def bcd(n):
    return ((n // 10) << 4) | (n % 10)


def decode_state(body):
    """Vendor-layout decode (binToModel) of a 0xC0 report body (without msg id / check byte).

    Returns the fields the property C11 talks about; optional trailing fields are None when the
    body is too short to contain them.
    """
    b = bytes(body)
    out = {}
    out["power"] = bool(b[1] & 0x01)
    out["mode"] = (b[2] & 0xE0) >> 5
    half = bool(b[2] & 0x10)
    alt = b[13] & 0x1F
    t = (b[2] & 0x0F) + 16
    if alt:
        t = alt + 12
    out["temp"] = t + (0.5 if half else 0.0)
    out["fan"] = b[3]
    out["swing"] = b[7] & 0x0F
    out["turbo"] = bool(b[8] & 0x20) or bool(b[10] & 0x02)
    out["indep_aux"] = bool(b[8] & 0x40)
    out["follow_me"] = bool(b[8] & 0x80)
    out["eco"] = bool(b[9] & 0x10)
    out["purifier"] = bool(b[9] & 0x20)
    out["aux_heat"] = bool(b[9] & 0x08)
    out["sleep"] = bool(b[10] & 0x01)
    out["fahrenheit"] = bool(b[10] & 0x04)
    out["indoor_raw"] = b[11]
    out["outdoor_raw"] = b[12]
    out["filter_alert"] = bool(b[13] & 0x20)
    out["display_off_vendor"] = ((b[14] & 0x70) >> 4) == 7
    out["b14"] = b[14]
    out["indoor_tenths"] = b[15] & 0x0F
    out["outdoor_tenths"] = b[15] >> 4
    out["humidity"] = (b[19] & 0x7F) if len(b) >= 20 else None
    out["freeze"] = bool(b[21] & 0x80) if len(b) >= 22 else None
    return out
