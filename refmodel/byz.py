"""Grammar-aware byzantine message construction (C09): start from valid V2 / V3 traffic and
set one structural element to a hostile value, keeping signatures / tags valid where the
spec says so.  Independent of msmart."""
import hashlib

from . import codec


def _rb(seed, n):
    out = b""
    c = 0
    while len(out) < n:
        out += hashlib.sha256(f"byz|{seed}|{c}".encode()).digest()
        c += 1
    return out[:n]


def v2_forge(device_id, length_field, enc, trailing=b"", marker=b"\x5a\x5a", mtype=b"\x01\x11", sign_ok=True,
             magic=b"\x20\x80"):
    """V2 packet with an arbitrary length field and arbitrary 'encrypted' bytes.

    The signature is placed where a decoder that trusts the length field will look for it
    (bytes [L-16:L]) and is computed over bytes [0:L-16], when that is possible (L >= 16).
    """
    hdr = marker + mtype + (length_field & 0xFFFF).to_bytes(2, "little") + magic + bytes(4) + bytes(8)
    hdr += (device_id & (2 ** 64 - 1)).to_bytes(8, "little") + bytes(12)
    body = bytearray(hdr + bytes(enc))
    L = length_field
    natural = len(body) + 16
    if L >= natural or L < 16:
        # sign goes at the natural place; decoder sees mismatch/truncation
        sig = hashlib.md5(bytes(body) + codec.SIGN_KEY).digest() if sign_ok else bytes(16)
        return bytes(body) + sig + bytes(trailing)
    # L < natural: the decoder will slice [:L]; put a valid signature at [L-16:L]
    buf = bytearray(bytes(body) + bytes(16) + bytes(trailing))
    sig = hashlib.md5(bytes(buf[:L - 16]) + codec.SIGN_KEY).digest() if sign_ok else bytes(16)
    buf[L - 16:L] = sig
    return bytes(buf)


def forge_v2(spec, device_id, frame, seed):
    """spec -> V2 packet bytes (honest when spec is None)."""
    if not spec:
        return codec.v2_encode(device_id, frame, magic=b"\x20\x80")
    k = spec["kind"]
    honest_enc = codec.ecb_encrypt(frame)
    natural = 40 + len(honest_enc) + 16
    if k == "v2_len":
        v = spec["value"]
        if v == "len-1":
            v = natural - 1
        elif v == "len+1":
            v = natural + 1
        elif v == "len-16":
            v = natural - 16
        elif v == "len+16":
            v = natural + 16
        return v2_forge(device_id, v, honest_enc, sign_ok=spec.get("resign", True),
                        trailing=_rb(seed, spec.get("trail", 0)))
    if k == "v2_enc":
        n = spec["n"]
        enc = _rb(seed, n)
        return v2_forge(device_id, 40 + n + 16, enc)
    if k == "v2_badpad":
        # valid sign, block-aligned ciphertext that decrypts to something without valid PKCS7
        from Crypto.Cipher import AES
        plain = _rb(seed, 16 * spec.get("blocks", 1))
        plain = plain[:-1] + bytes([spec.get("last", 0)])
        enc = AES.new(codec.ENC_KEY, AES.MODE_ECB).encrypt(plain)
        return v2_forge(device_id, 40 + len(enc) + 16, enc)
    if k == "v2_marker":
        return v2_forge(device_id, natural, honest_enc, marker=bytes.fromhex(spec["marker"]))
    if k == "v2_type":
        return v2_forge(device_id, natural, honest_enc, mtype=bytes.fromhex(spec["mtype"]))
    if k == "v2_trunc":
        p = codec.v2_encode(device_id, frame, magic=b"\x20\x80")
        return p[:max(1, spec["n"] % len(p))]
    if k == "v2_trailing":
        # an intact packet with surplus bytes behind it (a second marker, the start of another packet, padding)
        return codec.v2_encode(device_id, frame, magic=b"\x20\x80") + bytes.fromhex(spec["hex"])
    if k == "v2_header":
        # an intact, correctly signed and decryptable packet whose header fields nobody promised anything about: the
        # unit's clock (not a calendar time at all, or an impossible one), message id, the reserved tail
        return codec.v2_encode(device_id, frame, magic=bytes.fromhex(spec.get("magic", "2080")),
                               ts=bytes.fromhex(spec["ts"]) if "ts" in spec else _rb(seed, 8),
                               msg_id=_rb(seed + 1, 4) if spec.get("msg_id", True) else bytes(4),
                               tail12=_rb(seed + 2, 12) if spec.get("tail", True) else bytes(12))
    if k == "random":
        return _rb(seed, spec["n"])
    if k == "empty_frame":
        return codec.v2_encode(device_id, b"", magic=b"\x20\x80")
    raise ValueError(k)


def forge_v3(spec, key, counter, inner, seed):
    """spec -> V3 packet bytes around `inner` (a V2 packet or hostile payload)."""
    if not spec:
        return codec.v3_encode_encrypted(key, counter, inner, codec.T_ENCRYPTED_RESPONSE)
    k = spec["kind"]
    if k == "v3_type":
        t = spec["type"]
        if spec.get("plain"):
            return codec.v3_encode_plain(counter, inner[:spec.get("n", 64)], t)
        return codec.v3_encode_encrypted(key, counter, inner, t)
    rem = (len(inner) + 2) % 16
    pad = (16 - rem) % 16
    plain = counter.to_bytes(2, "big") + bytes(inner) + _rb(seed + 1, pad)
    if k == "v3_padn":
        hdr = codec.v3_header(len(inner) + pad + 32, spec["pad"] & 0xF, codec.T_ENCRYPTED_RESPONSE)
        return hdr + codec.cbc_encrypt(key, plain) + hashlib.sha256(hdr + plain).digest()
    if k == "v3_size":
        v = spec["value"]
        size = len(inner) + pad + 32
        if isinstance(v, str):
            size = size + int(v)
        else:
            size = v
        hdr = codec.v3_header(size & 0xFFFF, pad, codec.T_ENCRYPTED_RESPONSE)
        # tag valid for the header actually sent
        return hdr + codec.cbc_encrypt(key, plain) + hashlib.sha256(hdr + plain).digest()
    if k == "v3_cipher":
        # ciphertext of n arbitrary bytes with a consistent size field and a (necessarily unverifiable) tag
        n = spec["n"]
        ct = _rb(seed, n)
        hdr = codec.v3_header((n - 2 + 32) & 0xFFFF, spec.get("pad", 0), codec.T_ENCRYPTED_RESPONSE)
        return hdr + ct + _rb(seed + 2, 32)
    if k == "v3_valid_tag_plain":
        # the peer knows the session key: a correctly tagged packet around an arbitrary (short) plaintext
        n = spec["n"]                       # plaintext bytes, multiple of 16 (0 = empty ciphertext)
        plain2 = _rb(seed + 3, n)
        hdr = codec.v3_header((n - 2 + 32) & 0xFFFF if n else 30, spec.get("pad", 0), spec.get("type", codec.T_ENCRYPTED_RESPONSE))
        ct = codec.cbc_encrypt(key, plain2) if n else b""
        return hdr + ct + hashlib.sha256(hdr + plain2).digest()
    if k == "v3_magic":
        p = bytearray(codec.v3_encode_encrypted(key, counter, inner, codec.T_ENCRYPTED_RESPONSE))
        p[4] = spec["value"]
        return bytes(p)
    if k == "v3_trunc":
        p = codec.v3_encode_encrypted(key, counter, inner, codec.T_ENCRYPTED_RESPONSE)
        return p[:max(1, spec["n"] % len(p))]
    if k == "v3_short_plain":
        # tiny packets of every type: header + n bytes
        return codec.v3_header(spec["n"], spec.get("pad", 0), spec["type"]) + _rb(seed, spec["n"] + 2)
    if k == "random":
        return _rb(seed, spec["n"])
    if k == "random_marker":
        return b"\x83\x70" + _rb(seed, spec["n"])
    raise ValueError(k)
