"""Calibration of the reference models against captured real-device vectors.

The vectors are the ones quoted in the repository's tests (captured traffic from real devices,
with the values the captures document).  They are embedded here so that the reference model is
pinned to ground truth and not to the library: nothing from msmart is imported.
run_all() returns a list of failure strings (empty = calibrated).
"""
from . import acmodel, codec

V2_PACKET = "5a5a01116800208000000000000000000000000060ca0000000e0000000000000000000001000000c6a90377a364cb55af337259514c6f96bf084e8c7a899b50b68920cdea36cecf11c882a88861d1f46cd87912f201218c66151f0c9fbe5941c5384e707c36ff76"
V2_FRAME = "aa22ac00000000000303c0014566000000300010045cff2070000000000000008bed19"
V3_PACKET = "8370008e2063ec2b8aeb17d4e3aff77094dde7fa65cf22671adf807f490a97b927347943626e9b4f58362cf34b97a0d641f8bf0c8fcbf69ad8cca131d2d7baa70ef048c5e3f3dc78da8af4598ff47aee762a0345c18815d91b50a24dedcacde0663c4ec5e73a963dc8bbbea9a593859996eb79dcfcc6a29b96262fcaa8ea6346366efea214e4a2e48caf83489475246b6fef90192b00"
V3_KEY = "55a0a178746a424bf1fc6bb74b9fb9e4515965048d24ce8dc72aca91597d05ab"
V3_INNER = "5a5a01116800208000000000eaa908020c0817143daa0000008600000000000000000180000000003e99f93bb0cf9ffa100cb24dbae7838641d6e63ccbcd366130cd74a372932526d98479ff1725dce7df687d32e1776bf68a3fa6fd6259d7eb25f32769fcffef78"
V3_FRAME = "aa23ac00000000000303c00145660000003c0010045c6800000000000000000000018426"
DISC_V2 = "5a5a011178007a8000000000000000000000000060ca0000000e0000000000000000000001000000c08651cb1b88a167bdcf7d37534ef81312d39429bf9b2673f200b635fae369a560fa9655eab8344be22b1e3b024ef5dfd392dc3db64dbffb6a66fb9cd5ec87a78000cd9043833b9f76991e8af29f3496"
DISC_V3 = "837000c8200f00005a5a0111b8007a800000000061433702060817143daa00000086000000000000000001800000000041c7129527bc03ee009284a90c2fbd2f179764ac35b55e7fb0e4ab0de9298fa1a5ca328046c603fb1ab60079d550d03546b605180127fdb5bb33a105f5206b5f008bffba2bae272aa0c96d56b45c4afa33f826a0a4215d1dd87956a267d2dbd34bdfb3e16e33d88768cc4c3d0658937d0bb19369bf0317b24d3a4de9e6a13106f7ceb5acc6651ce53d684a32ce34dc3a4fbe0d4139de99cc88a0285e14657045"
PROBE = ("5a5a011148009200" + "00" * 32 +
         "7f75bd6b3e4f8b762e849c6e578d6590" + "036e9d4342a50f1f569eb8ec918e92e5")
GET_STATE_BODY = "418100ff03ff00020000000000000000000000000311f4"   # body incl. msg id 0x11 and CRC 0xf4

# (frame, target, indoor_raw->value, outdoor_raw->value)
STATE_FRAMES = [
    ("aa1eac00000000000003c0004b1e7f7f000000000069630000000000000d33", 27.0, 27.5, 24.5),
    ("aa22ac00000000000303c0014566000000300010045eff00000000000000000069fdb9", 21.0, 22.0, None),
    ("aa23ac00000000000303c00145660000003c0010045c6b20000000000000000000020d79", 21.0, 21.0, 28.5),
]
STATE_BODIES = [   # bodies incl. trailing (msg id, check); target temperature documented
    ("c00181667f7f003c00000060560400420000000000000048", 16.0),
    ("c00191667f7f003c00000060560400440000000000000049", 16.5),
    ("c00181667f7f003c0000006156050036000000000000004a", 17.0),
    ("c00193667f7f003c00000061570700550000000000000050", 19.5),
]
CAPS_FRAMES = [
    "aa29ac00000000000303b5071202010113020101140201011502010116020101170201001a020101dedb",
    "aa3dac00000000000203b50a12020101180001001402010115020101160201001a020101100201011f020100250207203c203c203c00400001000100c83a",
    "aa23ac00000000000303b5051e020101130201012202010019020100390001010000febe",
]
PROP_FRAMES = [
    "aa21ac00000000000303b10409000001000a00000100150000012b1e020000005fa3",
    "aa18ac00000000000302b0020a0000013209001101000089a4",
]
GROUP_FRAMES = [
    ("aa20ac00000000000203c121014400564a02640000000014ae0000000000041a22", 4),
    ("aa20ac00000000000303c12101453f546c005d0a000000de1f0000ba9a0004af9c", 5),
]


def run_all():
    bad = []

    def chk(cond, what):
        if not cond:
            bad.append(what)

    try:
        # CRC-8: the captured GetState body's last byte is the CRC of what precedes it
        b = bytes.fromhex(GET_STATE_BODY)
        chk(codec.crc8(b[:-1]) == b[-1], "crc8 on captured GetState body")
        d = codec.v2_decode(bytes.fromhex(V2_PACKET))
        chk(d["frame"].hex() == V2_FRAME, "V2 captured packet -> frame")
        chk(d["device_id"] == 15393162840672, "V2 captured packet device id")
        chk(codec.v2_encode(15393162840672, d["frame"], ts=d["ts"], magic=d["magic"], msg_id=d["msg_id"],
                            tail12=d["tail12"]).hex() == V2_PACKET, "V2 re-encode reproduces the capture")
        r = codec.v3_decode_encrypted(bytes.fromhex(V3_KEY), bytes.fromhex(V3_PACKET))
        chk(r["payload"].hex() == V3_INNER and r["pad"] == 6 and r["type"] == 3, "V3 captured packet")
        chk(codec.v2_decode(r["payload"])["frame"].hex() == V3_FRAME, "V3 inner V2 -> frame")
        chk(codec.v3_reassemble(bytes.fromhex(V3_PACKET)) == [(len(V3_PACKET) // 2, bytes.fromhex(V3_PACKET))],
            "V3 reassembler on the captured packet")
        p2 = codec.discovery_reply_parse(bytes.fromhex(DISC_V2))
        chk(p2 == {"version": 2, "device_id": 15393162840672, "ip": "10.100.1.140", "port": 6444,
                   "sn": "000000P0000000Q1F0C9D153F7B40000", "name": "net_ac_F7B4", "sign_ok": True}, "discovery V2")
        p3 = codec.discovery_reply_parse(bytes.fromhex(DISC_V3))
        chk(p3 == {"version": 3, "device_id": 147334558165565, "ip": "10.100.1.239", "port": 6444,
                   "sn": "000000P0000000Q1B88C29C963BA0000", "name": "net_ac_63BA", "sign_ok": True}, "discovery V3")
        # our encoders reproduce the captured discovery replies' decodable content
        body = codec.discovery_body("10.100.1.140", 6444, "000000P0000000Q1F0C9D153F7B40000", "net_ac_F7B4")
        chk(codec.discovery_reply_parse(codec.discovery_reply_v2(15393162840672, body)) == p2, "discovery V2 encode/parse")
        chk(codec.discovery_reply_parse(codec.discovery_reply_v3(15393162840672, body))["device_id"] == 15393162840672,
            "discovery V3 encode/parse")
        chk(codec.probe_is_wellformed(bytes.fromhex(PROBE)), "discovery probe is a well-formed signed packet")
        pb = bytearray(bytes.fromhex(PROBE))
        pb[45] ^= 1
        chk(not codec.probe_is_wellformed(bytes(pb)), "altered probe is rejected")
        for fr, tgt, ind, outd in STATE_FRAMES:
            f = bytes.fromhex(fr)
            chk(codec.response_valid_by_stated_rule(f), f"state frame validity {fr[:24]}")
            st = acmodel.decode_state(f[10:-2])
            chk(st["temp"] == tgt, f"state target {fr[:24]} {st['temp']} != {tgt}")
            for raw, tenths, want in ((st["indoor_raw"], st["indoor_tenths"], ind), (st["outdoor_raw"], st["outdoor_tenths"], outd)):
                chk(acmodel.sensor_ok(want, raw, tenths, st["fahrenheit"]) is None, f"sensor spec on {fr[:24]}")
        for bd, tgt in STATE_BODIES:
            st = acmodel.decode_state(bytes.fromhex(bd)[:-2])
            chk(st["temp"] == tgt, f"state body target {bd[:12]}")
            # re-encoding the decoded state reproduces the set-point bytes
            full = dict(acmodel.default_state())
            full.update({k: st[k] for k in ("power", "mode", "temp", "fan", "swing", "eco", "turbo", "sleep",
                                              "fahrenheit", "follow_me", "purifier", "aux_heat", "indep_aux",
                                              "filter_alert", "indoor_raw", "outdoor_raw", "indoor_tenths", "outdoor_tenths")})
            full["humidity"] = st["humidity"] or 0
            full["freeze"] = bool(st["freeze"])
            enc = acmodel.encode_state(full, 22)
            raw = bytes.fromhex(bd)
            chk((enc[2] & 0xF0) == (raw[2] & 0xF0) and acmodel.decode_state(enc)["temp"] == tgt, f"state re-encode set-point {bd[:12]}")
        for fr in CAPS_FRAMES + PROP_FRAMES:
            chk(codec.response_valid_by_stated_rule(bytes.fromhex(fr)), f"frame validity {fr[:26]}")
        # B5 layout: records are id_lo id_hi size value...
        f = bytes.fromhex(CAPS_FRAMES[0])
        recs = [(0x0212, b"\x01"), (0x0213, b"\x01"), (0x0214, b"\x01"), (0x0215, b"\x01"), (0x0216, b"\x01"),
                (0x0217, b"\x00"), (0x021A, b"\x01")]
        chk(acmodel.build_b5(recs) == f[10:-2], "B5 record layout")
        f = bytes.fromhex(CAPS_FRAMES[2])
        recs = [(0x021E, b"\x01"), (0x0213, b"\x01"), (0x0222, b"\x00"), (0x0219, b"\x00"), (0x0039, b"\x01")]
        chk(acmodel.build_b5(recs, additional=False) + b"\x00" == f[10:-2], "B5 trailer layout (additional flag, message id)")
        f2 = bytes.fromhex(CAPS_FRAMES[1])
        chk(f2[-4] == 0x01 and f2[-3] == 0x00, "B5 capture with the additional flag set")
        # property reply layout
        f = bytes.fromhex(PROP_FRAMES[1])
        chk(acmodel.build_prop_reply(0xB0, [(0x000A, 0x00, b"\x32"), (0x0009, 0x11, b"\x00")]) == f[10:-3],
            "B0 reply record layout")
        for fr, g in GROUP_FRAMES:
            f = bytes.fromhex(fr)
            chk(codec.response_valid_by_stated_rule(f) and f[10] == 0xC1 and (f[13] & 0xF) == g, f"group frame {g}")
            chk(acmodel.group_body(g, f[14:-2]) == f[10:-2], f"group body layout {g}")
    except Exception as e:   # any exception is a calibration failure
        bad.append(f"exception {type(e).__name__}: {e}")
    return bad
