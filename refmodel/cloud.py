"""Reference NetHome Plus cloud server (independent of msmart), served through httpx.MockTransport.

Verifies every request the way a conforming server does and answers from its own tables.
"""
import asyncio
import hashlib
import json
from urllib.parse import parse_qsl, urlsplit

import httpx

APP_KEY = "3742e9e5842d4ad59c2db887e12449f9"
APP_ID = "1017"


class RefCloud:
    def __init__(self, accounts, clock_fn=None, host="mapp.appsmb.com"):
        self.accounts = dict(accounts)        # account -> password
        self.login_ids = {}                   # account -> loginId
        self.sessions = {}                    # sessionId -> account
        self.expired_sessions = set()         # issued once, no longer valid
        self.tokens = {}                      # udpid(str) -> list of entries [{"udpId","token","key"}] to return
        self.default_tokens = None            # callable(udpid) -> list, when udpid not in tokens
        self.faults = []                      # consumed one per request: None | "timeout" | ("http", code[, headers]) | ("api", code)
        self.requests = []                    # log: dict(path, fields, verdict, fault)
        self.problems = []                    # verification failures (strings)
        self.clock_fn = clock_fn
        self.host = host
        self.rotate_login_id = False          # issue a new loginId on every id/get call (validate against the latest)
        self._lid_n = 0
        self._n = 0

    # --- helpers ---------------------------------------------------------------------------
    @staticmethod
    def sign(path, fields):
        items = sorted((k, v) for k, v in fields.items() if k != "sign")
        query = "&".join(f"{k}={v}" for k, v in items)
        return hashlib.sha256((path + query + APP_KEY).encode()).hexdigest()

    @staticmethod
    def derive_password(login_id, password):
        inner = hashlib.sha256(password.encode()).hexdigest()
        return hashlib.sha256((login_id + inner + APP_KEY).encode()).hexdigest()

    def _login_id(self, account):
        if account not in self.login_ids:
            self.login_ids[account] = hashlib.sha256(("lid" + account).encode()).hexdigest()[:32]
        return self.login_ids[account]

    def _ok(self, result):
        return httpx.Response(200, json={"errorCode": "0", "msg": "ok", "result": result})

    def _err(self, code, msg="error"):
        return httpx.Response(200, json={"errorCode": str(code), "msg": msg})

    # --- handler ------------------------------------------------------------------------------
    async def handler(self, request):
        url = urlsplit(str(request.url))
        path = url.path
        fields = dict(parse_qsl(request.content.decode(), keep_blank_values=True))
        fault = self.faults.pop(0) if self.faults else None
        rec = {"path": path, "fields": fields, "fault": fault, "verified": True, "method": request.method,
               "host": url.hostname, "scheme": url.scheme}
        self.requests.append(rec)
        problems = self.verify(path, fields, rec)
        if problems:
            rec["verified"] = False
            self.problems.extend(problems)
        if isinstance(fault, (list, tuple)) and fault[0] == "slow":
            await asyncio.sleep(float(fault[1]))       # a slow but correct server
            fault = None
        if fault == "timeout":
            await asyncio.sleep(10.0)
            raise httpx.ReadTimeout("timed out", request=request)
        if isinstance(fault, (list, tuple)) and fault[0] == "http":
            # optionally with response headers a throttling server or a proxy adds (Retry-After, Location ...)
            return httpx.Response(fault[1], text="error", headers=(dict(fault[2]) if len(fault) > 2 else None))
        if isinstance(fault, (list, tuple)) and fault[0] == "exc":
            # the exchange fails below the HTTP status level (connection dropped, protocol violation, proxy ...)
            cls = getattr(httpx, fault[1])
            raise cls("simulated " + fault[1], request=request) if fault[1] != "TooManyRedirects" else cls(
                "simulated redirects", request=request)
        if isinstance(fault, (list, tuple)) and fault[0] == "api":
            return self._err(fault[1], "injected")
        if problems:
            return self._err(3004, "; ".join(problems)[:200])
        if rec.get("expired_session"):
            return self._err(3106, "invalid session")
        return self.answer(path, fields)

    def verify(self, path, fields, rec):
        p = []
        if rec["method"] != "POST":
            p.append("method is not POST")
        if rec["scheme"] != "https" or rec["host"] != self.host:
            p.append(f"wrong endpoint {rec['scheme']}://{rec['host']}")
        if "sign" not in fields:
            p.append("sign missing")
        elif fields["sign"] != self.sign(path, fields):
            p.append("sign does not verify")
        for k, want in (("appId", APP_ID), ("src", APP_ID), ("format", "2"), ("clientType", "1")):
            if fields.get(k) != want:
                p.append(f"{k}={fields.get(k)!r} (expected {want!r})")
        for k in ("language", "deviceId", "stamp", "sessionId"):
            if k not in fields:
                p.append(f"{k} missing")
        st = fields.get("stamp", "")
        if not (len(st) == 14 and st.isdigit()):
            p.append(f"stamp {st!r} is not YYYYMMDDHHMMSS")
        elif self.clock_fn is not None:
            import datetime as _dt
            try:
                t = _dt.datetime.strptime(st, "%Y%m%d%H%M%S")
                now = _dt.datetime.strptime(self.clock_fn(), "%Y%m%d%H%M%S")
                age = (now - t).total_seconds()
                # a retried request re-sends its body: accept stamps up to 60 s old, never from the future
                if not (0 <= age <= 60):
                    p.append(f"stamp {st} is not the wall clock {self.clock_fn()}")
            except ValueError:
                p.append(f"stamp {st!r} is not a date")
        if path == "/v1/user/login/id/get":
            if fields.get("loginAccount") not in self.accounts:
                p.append("unknown loginAccount")
        elif path == "/v1/user/login":
            acct = fields.get("loginAccount")
            if acct not in self.accounts:
                p.append("unknown loginAccount")
            elif fields.get("password") != self.derive_password(self._login_id(acct), self.accounts[acct]):
                p.append("password derivation does not verify")
        elif path == "/v1/iot/secure/getToken":
            if fields.get("sessionId") in self.expired_sessions:
                rec["expired_session"] = True       # issued earlier, dropped by the server since: answered 3106
            elif fields.get("sessionId") not in self.sessions:
                p.append("sessionId is not the issued one")
            if not fields.get("udpid"):
                p.append("udpid missing")
        else:
            p.append(f"unknown path {path}")
        return p

    def answer(self, path, fields):
        if path == "/v1/user/login/id/get":
            if self.rotate_login_id:
                self._lid_n += 1
                self.login_ids[fields["loginAccount"]] = hashlib.sha256(
                    f"lid{self._lid_n}{fields['loginAccount']}".encode()).hexdigest()[:32]
            return self._ok({"loginId": self._login_id(fields["loginAccount"])})
        if path == "/v1/user/login":
            self._n += 1
            sid = hashlib.sha256(f"sid{self._n}{fields['loginAccount']}".encode()).hexdigest()[:32]
            self.sessions[sid] = fields["loginAccount"]
            return self._ok({"sessionId": sid, "userId": "1", "accessToken": "x" * 16})
        udpid = fields["udpid"]
        if udpid in self.tokens:
            lst = self.tokens[udpid]
        elif self.default_tokens is not None:
            lst = self.default_tokens(udpid)
        else:
            lst = []
        return self._ok({"tokenlist": lst})

    def expire_sessions(self):
        self.expired_sessions |= set(self.sessions)
        self.sessions.clear()

    def client_factory(self):
        handler = self.handler

        def get_async_client(*args, **kwargs):
            return httpx.AsyncClient(transport=httpx.MockTransport(handler))
        return get_async_client
