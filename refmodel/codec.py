"""Independent reference implementation of the Midea LAN wire formats.

Imports nothing from msmart.  AES / MD5 / SHA-256 primitives come from pycryptodome / hashlib
(the primitives are not under test; framing, padding, key handling and the checks around them
are).  Written from the protocol comments in msmart/lan.py, the vendor Lua reference and the
widely documented UART frame layout; calibrated against the captured real-device vectors in
the repository's tests by refmodel/calibrate.py.
"""
import hashlib

from Crypto.Cipher import AES

SIGN_KEY = b"xhdiwjnchekd4d512chdjx5d8e4c394D2D7S"
ENC_KEY = hashlib.md5(SIGN_KEY).digest()


class RefError(Exception):
    pass


# ------------------------------------------------------------------------------------------
# primitives

def crc8(data):
    """Dallas/Maxim CRC-8: poly x^8+x^5+x^4+1 (0x31), reflected (0x8C), init 0, bitwise."""
    crc = 0
    for b in data:
        crc ^= b
        for _ in range(8):
            crc = (crc >> 1) ^ 0x8C if crc & 1 else crc >> 1
    return crc


def twos_checksum(data):
    return (-sum(data)) & 0xFF


def pkcs7_pad(data, block=16):
    n = block - len(data) % block
    return bytes(data) + bytes([n]) * n


def pkcs7_unpad(data, block=16):
    if len(data) == 0 or len(data) % block:
        raise RefError("padded data length")
    n = data[-1]
    if n < 1 or n > block or data[-n:] != bytes([n]) * n:
        raise RefError("bad PKCS7 padding")
    return bytes(data[:-n])


def ecb_encrypt(plain):
    return AES.new(ENC_KEY, AES.MODE_ECB).encrypt(pkcs7_pad(plain))


def ecb_decrypt(cipher):
    if len(cipher) == 0 or len(cipher) % 16:
        raise RefError("ECB ciphertext length")
    return pkcs7_unpad(AES.new(ENC_KEY, AES.MODE_ECB).decrypt(bytes(cipher)))


def cbc_encrypt(key, plain):
    return AES.new(key, AES.MODE_CBC, iv=bytes(16)).encrypt(bytes(plain))


def cbc_decrypt(key, cipher):
    return AES.new(key, AES.MODE_CBC, iv=bytes(16)).decrypt(bytes(cipher))


def xor(a, b):
    return bytes(x ^ y for x, y in zip(a, b))


# ------------------------------------------------------------------------------------------
# V2 packet

def v2_timestamp_bytes(dt_tuple):
    """dt_tuple = (year, month, day, hour, minute, second, microsecond)."""
    y, mo, d, h, mi, s, us = dt_tuple
    return bytes([us // 10000, s, mi, h, d, mo, y % 100, y // 100])


def v2_encode(device_id, frame, ts=bytes(8), magic=b"\x20\x00", msg_id=bytes(4), tail12=bytes(12)):
    enc = ecb_encrypt(frame)
    length = 40 + len(enc) + 16
    hdr = b"\x5a\x5a\x01\x11" + length.to_bytes(2, "little") + magic + msg_id + ts
    hdr += (device_id & (2 ** 64 - 1)).to_bytes(8, "little") + tail12
    assert len(hdr) == 40
    pkt = hdr + enc
    return pkt + hashlib.md5(pkt + SIGN_KEY).digest()


def v2_decode(packet, strict=True):
    """Return dict(frame, device_id, ts, length, magic, msg_id).  Raises RefError."""
    p = bytes(packet)
    if len(p) < 56:
        raise RefError("short V2 packet")
    if p[0:2] != b"\x5a\x5a":
        raise RefError("bad V2 marker")
    length = int.from_bytes(p[4:6], "little")
    if strict and length != len(p):
        raise RefError(f"length field {length} != actual {len(p)}")
    if length > len(p) or length < 56:
        raise RefError("bad length")
    p = p[:length]
    if hashlib.md5(p[:-16] + SIGN_KEY).digest() != p[-16:]:
        raise RefError("bad MD5 sign")
    if strict and p[2:4] != b"\x01\x11":
        raise RefError("bad message type")
    frame = ecb_decrypt(p[40:-16])
    return {
        "frame": frame,
        "device_id": int.from_bytes(p[20:28], "little"),
        "ts": p[12:20],
        "length": length,
        "magic": p[6:8],
        "msg_id": p[8:12],
        "tail12": p[28:40],
        "enc_len": len(p) - 56,
    }


# ------------------------------------------------------------------------------------------
# V3 packet

T_HANDSHAKE_REQUEST = 0x0
T_HANDSHAKE_RESPONSE = 0x1
T_ENCRYPTED_RESPONSE = 0x3
T_ENCRYPTED_REQUEST = 0x6
T_ERROR = 0xF


def v3_header(size, pad, ptype):
    return b"\x83\x70" + size.to_bytes(2, "big") + b"\x20" + bytes([(pad << 4) | ptype])


def v3_encode_encrypted(key, counter, payload, ptype=T_ENCRYPTED_RESPONSE, padbytes=None):
    rem = (len(payload) + 2) % 16
    pad = (16 - rem) % 16
    if padbytes is None:
        padbytes = bytes(pad)
    assert len(padbytes) == pad
    hdr = v3_header(len(payload) + pad + 32, pad, ptype)
    plain = counter.to_bytes(2, "big") + bytes(payload) + padbytes
    return hdr + cbc_encrypt(key, plain) + hashlib.sha256(hdr + plain).digest()


def v3_encode_plain(counter, payload, ptype):
    """Handshake request/response and error packets: header + 2-byte counter + raw payload."""
    return v3_header(len(payload), 0, ptype) + counter.to_bytes(2, "big") + bytes(payload)


def v3_split(packet):
    p = bytes(packet)
    if len(p) < 8 or p[0:2] != b"\x83\x70":
        raise RefError("bad V3 marker/short")
    size = int.from_bytes(p[2:4], "big")
    if len(p) != size + 8:
        raise RefError(f"V3 size field {size} inconsistent with packet length {len(p)}")
    if p[4] != 0x20:
        raise RefError("bad V3 magic")
    return {"size": size, "pad": p[5] >> 4, "type": p[5] & 0xF, "body": p[6:]}


def v3_decode_encrypted(key, packet):
    """Strictly decode an encrypted request/response. Returns dict(counter, payload, pad, type)."""
    s = v3_split(packet)
    p = bytes(packet)
    body = p[6:]
    if len(body) < 32 + 16:
        raise RefError("encrypted packet too short")
    cipher, tag = body[:-32], body[-32:]
    if len(cipher) % 16:
        raise RefError("ciphertext not a multiple of the block size")
    plain = cbc_decrypt(key, cipher)
    if hashlib.sha256(p[:6] + plain).digest() != tag:
        raise RefError("bad SHA-256 tag")
    pad = s["pad"]
    if pad > len(plain) - 2:
        raise RefError("pad larger than payload")
    payload = plain[2:len(plain) - pad]
    # size field = payload + pad + 32 (the 2 counter bytes are not counted)
    if s["size"] != len(payload) + pad + 32:
        raise RefError("size field inconsistent with payload/pad")
    if (len(payload) + 2 + pad) % 16:
        raise RefError("alignment")
    if pad != (16 - (len(payload) + 2) % 16) % 16:
        raise RefError("pad nibble is not the minimal pad")
    return {"counter": int.from_bytes(plain[:2], "big"), "payload": payload, "pad": pad, "type": s["type"]}


def v3_handshake_reply_body(key, nonce):
    """64-byte handshake reply body for a 32-byte device nonce."""
    return cbc_encrypt(key, nonce) + hashlib.sha256(nonce).digest()


def v3_session_key(key, nonce):
    return xor(nonce, key)


def v3_reassemble(stream):
    """Reference reassembler: list of (end_offset, packet) for the complete packets in a stream.

    Bytes before a start marker are skipped; a packet is 8 + size bytes where size is the
    big-endian field after the marker.
    """
    out = []
    s = bytes(stream)
    pos = 0
    while True:
        i = s.find(b"\x83\x70", pos)
        if i < 0 or len(s) - i < 6:
            break
        total = int.from_bytes(s[i + 2:i + 4], "big") + 8
        if len(s) - i < total:
            break
        out.append((i + total, s[i:i + total]))
        pos = i + total
    return out


# ------------------------------------------------------------------------------------------
# application frame (UART frame carried in the V2 payload)

def frame_build(body_with_check, frame_type, appliance=0xAC, proto_ver=0):
    """body_with_check = body bytes already ending in their check byte."""
    n = 10 + len(body_with_check)
    hdr = bytearray(10)
    hdr[0] = 0xAA
    hdr[1] = n & 0xFF
    hdr[2] = appliance
    hdr[8] = proto_ver
    hdr[9] = frame_type
    f = bytes(hdr) + bytes(body_with_check)
    return f + bytes([twos_checksum(f[1:])])


def body_with_crc(body):
    return bytes(body) + bytes([crc8(body)])


def body_with_sum(body):
    return bytes(body) + bytes([twos_checksum(body)])


def frame_parse_strict(frame):
    """What a spec-conforming device parser accepts.  Returns dict(type, body, msg_id)."""
    f = bytes(frame)
    if len(f) < 13:
        raise RefError("frame too short")
    if f[0] != 0xAA:
        raise RefError("bad start byte")
    if f[1] != len(f) - 1:
        raise RefError(f"length byte {f[1]} != len-1 {len(f) - 1}")
    if f[2] != 0xAC:
        raise RefError("appliance type")
    if twos_checksum(f[1:-1]) != f[-1]:
        raise RefError("frame checksum")
    body = f[10:-1]
    if crc8(body[:-1]) != body[-1]:
        raise RefError("body CRC-8")
    return {"type": f[9], "body": body[:-2], "msg_id": body[-2], "proto": f[8]}


def response_valid_by_stated_rule(frame):
    """C13's stated acceptance rule, independently: outer checksum must match; body check byte
    must equal CRC-8 or additive checksum unless the frame is a property response (0xB0/0xB1)."""
    f = bytes(frame)
    if len(f) < 12:
        return False
    if twos_checksum(f[1:-1]) != f[-1]:
        return False
    if f[10] in (0xB0, 0xB1):
        return True
    body = f[10:-1]
    return crc8(body[:-1]) == body[-1] or twos_checksum(body[:-1]) == body[-1]


# ------------------------------------------------------------------------------------------
# discovery

def discovery_body(ip, port, sn, name, extra=b""):
    parts = [int(x) for x in ip.split(".")]
    b = bytes(reversed(parts)) + port.to_bytes(2, "little") + bytes(2)
    sn_b = sn.encode()
    assert len(sn_b) == 32
    b += sn_b + bytes([len(name.encode())]) + name.encode() + extra
    return b


def discovery_reply_v2(device_id, body):
    enc = ecb_encrypt(body)
    length = 40 + len(enc) + 16
    hdr = b"\x5a\x5a\x01\x11" + length.to_bytes(2, "little") + b"\x7a\x80" + bytes(4) + bytes(8)
    hdr += (device_id & (2 ** 48 - 1)).to_bytes(6, "little") + bytes(2) + bytes(12)
    assert len(hdr) == 40
    pkt = hdr + enc
    return pkt + hashlib.md5(pkt + SIGN_KEY).digest()


def discovery_reply_v3(device_id, body, trailer=bytes(16)):
    inner = discovery_reply_v2(device_id, body)
    size = len(inner) + len(trailer)
    return b"\x83\x70" + size.to_bytes(2, "big") + b"\x20\x0f\x00\x00" + inner + trailer


def discovery_reply_parse(data):
    d = bytes(data)
    version = 2
    if d[:2] == b"\x83\x70":
        version = 3
        d = d[8:-16]
    if d[:2] != b"\x5a\x5a":
        raise RefError("not a discovery reply")
    body = ecb_decrypt(d[40:-16])
    ip = ".".join(str(x) for x in reversed(body[0:4]))
    nlen = body[40]
    return {"version": version, "device_id": int.from_bytes(d[20:26], "little"),
            "ip": ip, "port": int.from_bytes(body[4:6], "little"),
            "sn": body[8:40].decode(), "name": body[41:41 + nlen].decode(),
            "sign_ok": hashlib.md5(d[:-16] + SIGN_KEY).digest() == d[-16:]}


def probe_is_wellformed(data):
    """The discovery probe real devices answer: a signed 72-byte V2-framed packet."""
    d = bytes(data)
    if len(d) != 72 or d[:2] != b"\x5a\x5a" or d[2:4] != b"\x01\x11":
        return False
    if int.from_bytes(d[4:6], "little") != len(d):
        return False
    if d[6:8] != b"\x92\x00":
        return False
    if d[8:40] != bytes(32):
        return False
    if hashlib.md5(d[:-16] + SIGN_KEY).digest() != d[-16:]:
        return False
    return len(d[40:-16]) == 16


def udpid(device_id_bytes):
    h = hashlib.sha256(device_id_bytes).digest()
    return xor(h[:16], h[16:])
