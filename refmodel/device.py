"""Reference Midea AC device: LAN transport (V2 / V3) + application layer, with a wire monitor.

Independent of msmart.  Honest by default; per-message *directives* (plain dicts taken from the
plan) make it late, silent, duplicate, unsolicited-chatty, corrupting or byzantine.  Every
client->device packet is decoded by the reference codec and logged in `self.log`; the per-
property oracles read that log.
"""
import hashlib

from . import acmodel, byz, codec
from .acmodel import FT_CONTROL, FT_QUERY

MIN_LAT = 1.0 / 1024


class RefDevice:
    def __init__(self, version=2, device_id=1, token=None, key=None, nonce_seed=b"nonce",
                 resp_magic=b"\x20\x80"):
        self.version = version
        self.device_id = device_id
        self.token = token
        self.key = key
        self.nonce_seed = nonce_seed
        self._nonce_n = 0
        self.resp_magic = resp_magic
        self.state = acmodel.default_state()
        self.props = {}                  # property store: pid -> bytes
        self.supported_props = set()     # pids the device knows (others -> result 0x11? ignored)
        self.caps_pages = [([], None)]   # [(records, additional_flag)]
        self.energy = None               # 16+ data bytes of group 4 or None -> zeros
        self.humidity = None             # data bytes of group 5
        self.state_len = 24              # length of the 0xC0 body before msg id/check
        self.check_style = "crc"         # or "sum"
        self.legacy_exclusive = True
        self.msg_id = 0
        self.fixed_msg_id = False        # some devices answer with a constant message id
        # scripts (consumed one directive per event; default {} = honest, prompt)
        self.default_directive = {}   # used for a data request when the script is empty
        self.pending_tail = {}        # cid -> bytes of a half-sent unsolicited packet, flushed before the next send
        self.script = []       # per data request transmission
        self.hs_script = []    # per handshake request
        self.conn_script = []  # per connect attempt: [action, delay]
        # monitor
        self.log = []          # list of dict events (see _ev)
        self.violations = []   # strict-parser failures on client traffic (recorded, not judged)
        self.controls = []     # decoded control states received
        self.prop_sets = []    # [(t, [(pid, value)])]
        self.prop_queries = []
        self.fired = {}        # fault kind -> count (counted at the point of effect)
        self.last_response = {}  # cid -> last response packet bytes (for dup_prev)
        self.app_override = None  # callable(dev, req, frames, directive) -> frames
        self.raw_payload_handler = None  # callable(conn, decoded, key): protocol-level V3 payloads (C05)
        self.raw_state = None            # (body bytes, with_msgid) raw 0xC0 report (C11)
        self.raw_frame_handler = None    # callable(conn, frame, key, directive) -> [frames] | None (C02/C03)
        self.net = None

    # --------------------------------------------------------------------------------------
    def _fire(self, kind, n=1):
        self.fired[kind] = self.fired.get(kind, 0) + n

    def _ev(self, conn, kind, **kw):
        e = {"t": conn.net.loop.time(), "cid": conn.cid, "kind": kind}
        e.update(kw)
        self.log.append(e)
        return e

    def next_nonce(self):
        self._nonce_n += 1
        return hashlib.sha256(self.nonce_seed + b"|" + str(self._nonce_n).encode()).digest()

    # --- SimNet server interface -----------------------------------------------------------
    def connect_policy(self, net, host, port):
        self.net = net
        if self.conn_script:
            a = self.conn_script.pop(0)
            action, delay = a[0], a[1]
            if action == "accept_junk":
                # accept, then speak first: hostile bytes before the client has sent anything
                self._junk_on_connect = bytes.fromhex(a[2])
                self._fire("connect_accept_junk")
                return "accept", delay
            if action != "accept":
                self._fire("connect_" + action)
            return action, delay
        return "accept", MIN_LAT

    def on_connect(self, conn):
        conn.state.update({"keys": [], "accepted_key": None, "rx_buf": b"", "tx_counter": 0,
                           "last_counter": None, "hs_ok": False})
        self._ev(conn, "connect")
        junk = getattr(self, "_junk_on_connect", None)
        if junk:
            self._junk_on_connect = None
            conn.state["desync"] = True
            conn.send(junk, lat=MIN_LAT / 4)
            conn.hostile_until = max(conn.hostile_until, conn._last_sched)

    def on_client_close(self, conn):
        self._ev(conn, "client_close")

    def on_data(self, conn, data):
        if self.version == 3:
            self._on_data_v3(conn, data)
        else:
            self._on_data_v2(conn, data)

    # --- V2 ----------------------------------------------------------------------------------
    def _on_data_v2(self, conn, data):
        try:
            d = codec.v2_decode(data, strict=True)
        except codec.RefError as e:
            self._ev(conn, "bad_v2", err=str(e), raw=data)
            self.violations.append(("v2", str(e), data))
            return
        self._ev(conn, "v2_req", frame=d["frame"], device_id=d["device_id"], ts=d["ts"],
                 magic=d["magic"], msg_id=d["msg_id"], tail12=d["tail12"], enc_len=d["enc_len"],
                 length=d["length"], raw=data)
        self._on_request(conn, d["frame"], None)

    # --- V3 ----------------------------------------------------------------------------------
    def _on_data_v3(self, conn, data):
        # the client writes whole packets; still, parse generally
        buf = conn.state["rx_buf"] + data
        while True:
            if len(buf) < 6:
                break
            if buf[:2] != b"\x83\x70":
                self._ev(conn, "bad_v3", err="marker", raw=buf)
                self.violations.append(("v3", "marker", buf))
                buf = b""
                break
            total = int.from_bytes(buf[2:4], "big") + 8
            if len(buf) < total:
                break
            pkt, buf = buf[:total], buf[total:]
            self._on_packet_v3(conn, pkt)
        conn.state["rx_buf"] = buf

    def _on_packet_v3(self, conn, pkt):
        st = conn.state
        try:
            s = codec.v3_split(pkt)
        except codec.RefError as e:
            self._ev(conn, "bad_v3", err=str(e), raw=pkt)
            self.violations.append(("v3", str(e), pkt))
            return
        ptype = s["type"]
        if ptype == codec.T_HANDSHAKE_REQUEST:
            counter = int.from_bytes(pkt[6:8], "big")
            token = pkt[8:]
            ok = (self.token is not None and token == self.token and s["pad"] == 0
                  and s["size"] == len(token))
            self._ev(conn, "hs_req", token=token, token_ok=ok, counter=counter, size=s["size"],
                     pad=s["pad"])
            self._check_counter(conn, counter)
            self._on_handshake(conn, token, ok)
            return
        if ptype == codec.T_ENCRYPTED_REQUEST:
            dec = None
            kidx = None
            err = "no session key"
            for i in range(len(st["keys"]) - 1, -1, -1):
                try:
                    dec = codec.v3_decode_encrypted(st["keys"][i], pkt)
                    kidx = i
                    break
                except codec.RefError as e:
                    err = str(e)
            if dec is None:
                self._ev(conn, "enc_bad", err=err, raw=pkt, nkeys=len(st["keys"]))
                self.violations.append(("v3enc", err, pkt))
                return
            ev = self._ev(conn, "enc_req", counter=dec["counter"], pad=dec["pad"], key_index=kidx,
                          latest_key=(kidx == len(st["keys"]) - 1), payload=dec["payload"], raw=pkt)
            self._check_counter(conn, dec["counter"])
            if self.raw_payload_handler is not None:
                self.raw_payload_handler(conn, dec, st["keys"][kidx])
                return
            try:
                d = codec.v2_decode(dec["payload"], strict=True)
            except codec.RefError as e:
                ev["inner_err"] = str(e)
                self.violations.append(("v2-in-v3", str(e), dec["payload"]))
                return
            ev.update(frame=d["frame"], device_id=d["device_id"], ts=d["ts"])
            self._ev(conn, "v2_req", frame=d["frame"], device_id=d["device_id"], ts=d["ts"],
                     magic=d["magic"], msg_id=d["msg_id"], tail12=d["tail12"], enc_len=d["enc_len"],
                     length=d["length"], raw=dec["payload"])
            self._on_request(conn, d["frame"], st["keys"][kidx])
            return
        self._ev(conn, "v3_other", ptype=ptype, raw=pkt)
        self.violations.append(("v3type", f"unexpected client packet type {ptype}", pkt))

    def _check_counter(self, conn, counter):
        st = conn.state
        st.setdefault("counters", []).append(counter)

    def _on_handshake(self, conn, token, ok):
        st = conn.state
        d = self.hs_script.pop(0) if self.hs_script else {}
        lat = d.get("lat", MIN_LAT)
        tail = self._take_tail(conn)
        if d.get("drop") or (not ok and getattr(self, "silent_on_bad_token", False)):
            if tail:
                conn.send(tail, lat=lat)
            self._fire("silent_hs" if d.get("drop") else "unknown_token_ignored_silently")
            if d.get("close"):
                # no reply at all: the connection is reset / closed while the client waits for one
                self._fire("close_instead_of_hs_reply" + ("_rst" if d.get("rst") else ""))
                conn.close(rst=bool(d.get("rst")), lat=lat)
            return
        if d.get("flood") is not None:
            k = self.key if self.key is not None else bytes(32)
            nonce = self.next_nonce()
            body = codec.v3_handshake_reply_body(k, nonce)
            st["keys"].append(codec.v3_session_key(k, nonce))
            honest = codec.v3_encode_plain(self._txc(conn), body, codec.T_HANDSHAKE_RESPONSE)
            total = self._flood_bytes(conn, d["flood"], None) + honest
            self._fire("flood_hs:" + d["flood"]["kind"])
            conn.state["desync"] = True
            conn.send(total, lat=lat)
            conn.hostile_until = max(conn.hostile_until, conn._last_sched)
            return
        if d.get("byz") is not None:
            b = d["byz"]
            nonce = self.next_nonce()
            k = self.key if self.key is not None else bytes(32)
            body = codec.v3_handshake_reply_body(k, nonce)
            inner = bytes.fromhex(b["inner"]) if b.get("inner") is not None else body
            pkt = byz.forge_v3(b.get("v3"), codec.v3_session_key(k, nonce), self._txc(conn), inner, d.get("seed", 0))
            self._fire("byz_hs:" + (b.get("v3") or {}).get("kind", "inner"))
            conn.send(pkt, lat=lat, cuts=self._cuts(d, len(pkt)))
            if d.get("then_honest"):
                st["keys"].append(codec.v3_session_key(k, nonce))
                conn.send(codec.v3_encode_plain(self._txc(conn), body, codec.T_HANDSHAKE_RESPONSE), lat=lat)
            return
        if d.get("raw") is not None:
            self._fire("hs_raw")
            conn.state["desync"] = True
            conn.hostile_until = conn.net.loop.time() + lat + 1.0
            conn.send(bytes.fromhex(d["raw"]), lat=lat, cuts=self._cuts(d, len(d["raw"]) // 2))
            return
        if d.get("error") or (not ok and not d.get("force_reply")):
            if d.get("error"):
                self._fire("error_packet_hs")
            pkt = codec.v3_encode_plain(self._txc(conn), b"ERROR", codec.T_ERROR)
            conn.send(pkt, lat=lat)
            conn.hostile_until = max(conn.hostile_until, conn._last_sched)
            if d.get("close"):
                # firmware that drops the connection after refusing a token
                self._fire("close_after_refusal")
                conn.close(rst=bool(d.get("rst")), lat=lat)
            return
        nonce = self.next_nonce()
        key = self.key if self.key is not None else bytes(32)
        genuine = True
        if d.get("wrong_key"):
            key = hashlib.sha256(b"other" + key).digest()
            genuine = False
            self._fire("wrong_key_reply")
        body = bytearray(codec.v3_handshake_reply_body(key, nonce))
        if d.get("flip") is not None:
            bit = d["flip"] % (len(body) * 8)
            body[bit // 8] ^= 1 << (bit % 8)
            genuine = False
            self._fire("hs_bit_flip")
        if d.get("len") is not None:
            n = d["len"]
            body = bytearray((bytes(body) + hashlib.sha256(nonce + b"x").digest() * 4)[:n])
            genuine = genuine and n == 64
            self._fire("bad_length_reply")
        ptype = d.get("type", codec.T_HANDSHAKE_RESPONSE)
        if ptype != codec.T_HANDSHAKE_RESPONSE:
            genuine = False
            self._fire("wrong_type")
        pkt = bytearray(codec.v3_encode_plain(self._txc(conn), bytes(body), ptype))
        if d.get("pad_nibble") is not None:
            pkt[5] = ((d["pad_nibble"] & 0xF) << 4) | (pkt[5] & 0xF)
        if d.get("hdr_flip") is not None:       # flips in the 8 bytes before the 64-byte body
            bit = d["hdr_flip"] % 64
            pkt[bit // 8] ^= 1 << (bit % 8)
            self._fire("hs_hdr_flip")     # the body is genuine: the device did issue this key
        if genuine:
            st["keys"].append(codec.v3_session_key(self.key, nonce))
            st["hs_ok"] = True
        hs_ev = self._ev(conn, "hs_reply", genuine=genuine, key_index=len(st["keys"]) - 1 if genuine else None)
        pre = b""
        if d.get("garbage_prefix"):
            pre = bytes.fromhex(d["garbage_prefix"])
            self._fire("garbage_prefix")
        total = tail + pre + bytes(pkt)
        push = b""
        if d.get("post_push") and genuine:
            # a status report under the new session key follows the reply at once
            push = self.wrap(conn, self.state_frame(ftype=acmodel.FT_REPORT), st["keys"][-1])
            self._fire("status_push_right_behind_handshake_reply")
        if push and d["post_push"] == "same":
            conn.send(total + push, lat=lat)
            hs_ev["end"] = len(conn.tx_stream) - len(push)
        else:
            conn.send(total, lat=lat, cuts=self._cuts(d, len(total)))
            hs_ev["end"] = len(conn.tx_stream)       # stream offset at which the reply is complete
            if push:
                conn.send(push, lat=lat)
        if not genuine:
            conn.hostile_until = max(conn.hostile_until, conn._last_sched)
        if d.get("dup"):
            self._fire("dup_hs_reply")
            conn.send(bytes(pkt), lat=lat)
        if d.get("close"):
            self._fire("close_after_hs" + ("_rst" if d.get("rst") else ""))
            conn.close(rst=bool(d.get("rst")), lat=lat)

    def send_partial_unsolicited(self, conn, k):
        """Push the first k bytes of an unsolicited state report now; the rest goes out right before the
        device's next message on this connection (a TCP segmentation of the device's byte stream)."""
        key = conn.state["keys"][-1] if conn.state.get("keys") else None
        if self.version == 3 and key is None:
            return False
        if conn.cid in self.pending_tail:
            return False          # one half-sent packet at a time (a second one would corrupt the stream)
        for _ in range(40):
            self.last_unsolicited_frame = self.state_frame(ftype=acmodel.FT_REPORT)
            pkt = self.wrap(conn, self.last_unsolicited_frame, key)
            k = max(1, min(k, len(pkt) - 1))
            # if a flush discards the head, what follows must be marker-free garbage for the next packet
            # to be found (ciphertext contains the marker bytes by chance once in ~450 packets)
            if b"\x83\x70" not in pkt[k:] and not (pkt[k:k + 1] == b"\x70" and pkt[k - 1:k] == b"\x83" and k > 1):
                break
        else:
            return False
        conn.send(pkt[:k], lat=MIN_LAT)
        self.pending_tail[conn.cid] = pkt[k:]
        self._fire("partial_unsolicited_packet")
        return True

    def _take_tail(self, conn):
        """Rest of a half-sent unsolicited packet: it travels in the same segment as the next message."""
        return self.pending_tail.pop(conn.cid, b"") or b""

    def _flood_bytes(self, conn, spec, key):
        n, kind = spec["n"], spec["kind"]
        if kind == "hs_response":
            one = codec.v3_encode_plain(0, bytes(64), codec.T_HANDSHAKE_RESPONSE)
        elif kind == "error":
            one = codec.v3_encode_plain(0, b"ERROR", codec.T_ERROR)
        elif kind == "short_type":
            one = codec.v3_header(0, 0, 0x2) + b"\x00\x00"
        else:
            k = key if key is not None else bytes(32)
            one = codec.v3_encode_encrypted(k, 0, codec.v2_encode(self.device_id, self.state_frame()), codec.T_ENCRYPTED_RESPONSE)
        return one * n

    def _txc(self, conn):
        forced = getattr(self, "force_counter", None)
        if forced is not None:
            self.force_counter = None           # one packet with a chosen counter (clients do not check it)
            return forced & 0xFFFF
        c = conn.state["tx_counter"]
        conn.state["tx_counter"] = (c + 1) & 0xFFFF
        return c

    # --- request handling -----------------------------------------------------------------------
    def _cuts(self, d, n):
        c = d.get("cuts")
        if c is None:
            return None
        if c == "all":
            self._fire("byte_by_byte")
            return list(range(1, n))
        pts = sorted({x % n for x in c if n > 1 and x % n})
        if pts:
            self._fire("seg_split")
        return pts

    def wrap(self, conn, frame, key, magic=None):
        """frame -> V2 packet -> (V3 encrypted response if key)."""
        # units stamp their answers with their own id and clock (which may never have been set, or run in a format
        # of their own): resp_device_id / resp_ts override the defaults (same id as configured, zero time)
        rid = getattr(self, "resp_device_id", None)
        pkt = codec.v2_encode(self.device_id if rid is None else rid, frame, magic=magic or self.resp_magic,
                              ts=getattr(self, "resp_ts", None) or bytes(8))
        if key is not None:
            pkt = codec.v3_encode_encrypted(key, self._txc(conn), pkt, codec.T_ENCRYPTED_RESPONSE,
                                            padbytes=None)
        return pkt

    def _on_request(self, conn, frame, key):
        d = self.script.pop(0) if self.script else dict(self.default_directive)
        lat = d.get("lat", MIN_LAT)
        tail = self._take_tail(conn)
        if tail and (d.get("drop") or d.get("close") == "before" or d.get("error")):
            conn.send(tail, lat=lat)
            tail = b""
        if tail:
            # the rest of the half-sent report shares the response's segment (see C01 known finding
            # first_packet_wins for the complementary shape), so no further cuts in this transmission
            d = {k: v for k, v in d.items() if k not in ("cuts", "pre_sep", "hold", "gap")}
        try:
            req = codec.frame_parse_strict(frame)
        except codec.RefError as e:
            self._ev(conn, "bad_frame", err=str(e), frame=frame)
            self.violations.append(("frame", str(e), frame))
            req = None
        frames = []
        if self.raw_frame_handler is not None:
            # transport-level checks: arbitrary (non-AC) frames in both directions
            if self.violations and self.violations[-1][0] == "frame":
                self.violations.pop()
            req = None
            frames = self.raw_frame_handler(conn, frame, key, d)
        if req is not None:
            self._ev(conn, "request", ftype=req["type"], body=req["body"], msg_id=req["msg_id"], frame=frame)
            frames = self.handle(req, d)
            if self.app_override is not None:
                frames = self.app_override(self, req, frames, d)
        if d.get("drop"):
            self._fire("silent")
            return
        if d.get("close") == "before":
            self._fire("close_in_wait" + ("_rst" if d.get("rst") else "_fin"))
            conn.close(rst=bool(d.get("rst")), lat=lat)
            return
        if d.get("error") and key is not None:
            self._fire("error_packet")
            conn.send(codec.v3_encode_plain(self._txc(conn), b"ERROR", codec.T_ERROR), lat=lat)
            conn.hostile_until = max(conn.hostile_until, conn._last_sched)
            return
        msgs = []
        if tail:
            if self.version == 2:
                conn.send(tail, lat=lat)
            else:
                msgs.append(tail)          # coalesced with the response (V3 stream)
        for kind in d.get("pre", []):
            m = self._extra(conn, kind, key)
            if m is not None:
                msgs.append(m)
        if d.get("mutate_inner") is not None and frames and key is not None:
            # the carried V2 packet is altered, the V3 envelope around it is genuine (a fault inside the device,
            # or an attacker who holds the session key)
            inner = self._mutate(codec.v2_encode(self.device_id, frames[0], magic=self.resp_magic), d["mutate_inner"])
            self.last_inner = inner
            resp_pkts = [codec.v3_encode_encrypted(key, self._txc(conn), inner, codec.T_ENCRYPTED_RESPONSE,
                                                   padbytes=None)]
            resp_pkts += [self.wrap(conn, f, key) for f in frames[1:]]
            self._fire("altered_v2_packet_in_genuine_v3_envelope")
        else:
            resp_pkts = [self.wrap(conn, f, key) for f in frames]
        if d.get("flood") is not None and key is not None:
            self._fire("flood:" + d["flood"]["kind"])
            resp_pkts = [self._flood_bytes(conn, d["flood"], key)] + (resp_pkts if d.get("then_honest") else [])
        if d.get("byz") is not None:
            b = d["byz"]
            seed = d.get("seed", 0)
            inner = byz.forge_v2(b.get("v2"), self.device_id, frames[0] if frames else b"", seed)
            if b.get("inner") is not None:
                inner = bytes.fromhex(b["inner"])
            pkt = byz.forge_v3(b.get("v3"), key, self._txc(conn), inner, seed) if key is not None else inner
            self._fire("byz:" + ((b.get("v3") or b.get("v2") or {}).get("kind", "inner")))
            resp_pkts = [pkt]
            if d.get("then_honest"):
                resp_pkts += [self.wrap(conn, f, key) for f in frames]
        if d.get("raw") is not None:
            self._fire("raw_reply")
            resp_pkts = [bytes.fromhex(d["raw"])]
        orig0 = resp_pkts[0] if resp_pkts else None
        if d.get("mutate") is not None and resp_pkts:
            resp_pkts[0] = self._mutate(resp_pkts[0], d["mutate"])
        msgs.extend(resp_pkts)
        if d.get("authentic_after") and orig0 is not None:
            # the unit repeats the packet right away, intact this time
            msgs.append(orig0)
            self._fire("authentic_copy_right_behind_altered_packet")
        if resp_pkts:
            self.last_response[conn.cid] = resp_pkts[-1]
        for _ in range(d.get("dup", 0)):
            self._fire("dup_response")
            msgs.extend(resp_pkts)
        for kind in d.get("post", []):
            m = self._extra(conn, kind, key)
            if m is not None:
                msgs.append(m)
        if d.get("post_mutated") is not None and resp_pkts:
            # an altered copy of the response follows it (picked up by the next exchange's drain)
            msgs.append(self._mutate(resp_pkts[-1], d["post_mutated"]))
            conn.state["desync"] = True
            if d.get("then_authentic"):
                msgs.append(orig0 if orig0 is not None else resp_pkts[-1])     # and an intact copy after it
        honest = not any(d.get(k) for k in ("raw", "mutate", "mutate_inner", "byz", "app", "flood"))
        if not honest:
            conn.state["desync"] = True     # hostile bytes may have broken the stream framing
        base = len(conn.tx_stream)
        self._transmit(conn, msgs, d, lat)
        if not honest:
            conn.hostile_until = max(conn.hostile_until, conn._last_sched)
        if honest and resp_pkts:
            # stream span of each well-formed response packet (for the retry-contract oracle)
            off = base
            for m in msgs:
                if m in resp_pkts:
                    conn.state.setdefault("good_spans", []).append((off, off + len(m)))
                off += len(m)
        if d.get("dup_late") and resp_pkts:
            # the device itself re-sends the response later (a device-side timer, not a slow delivery: TCP keeps
            # order, so a long latency would also hold back everything sent afterwards)
            self._fire("dup_late")
            loop = conn.net.loop
            for p in resp_pkts:
                loop.call_later(lat + d["dup_late"], lambda p=p: conn.open and conn.send(p, lat=MIN_LAT))
        if d.get("close") == "after":
            self._fire("close_after_reply" + ("_rst" if d.get("rst") else ""))
            conn.close(rst=bool(d.get("rst")), lat=lat, same_tick=bool(d.get("same_tick")))

    def _transmit(self, conn, msgs, d, lat):
        if not msgs:
            return
        if d.get("pre_sep") and len(msgs) > 1:
            # first message in its own earlier segment, the rest coalesced a little later
            self._fire("unsolicited_first_separate_segment")
            conn.send(msgs[0], lat=lat)
            conn.send(b"".join(msgs[1:]) if self.version == 3 else msgs[1], lat=lat + d.get("gap", 0.01))
            for m in (msgs[2:] if self.version == 2 else []):
                conn.send(m, lat=lat + 2 * d.get("gap", 0.01))
            return
        if self.version == 3 or d.get("v2_stream"):
            total = b"".join(msgs)
            if len(msgs) > 1 and not d.get("cuts"):
                self._fire("seg_coalesce")
            if d.get("v2_stream") and self.version == 2:
                self._fire("v2_stream_segmentation")
            conn.send(total, lat=lat, cuts=self._cuts(d, len(total)), gap=d.get("gap", MIN_LAT / 64),
                      hold=(d.get("hold") if d.get("hold") == "next" else bool(d.get("hold"))))
            if d.get("hold"):
                self._fire("seg_hold_coalesce")
        else:
            # V2 verdict-bearing space: packet-aligned delivery (see DESIGN known finding C01-V2)
            t = lat
            for m in msgs:
                conn.send(m, lat=t)
                t = t + d.get("gap", MIN_LAT / 64)

    def _mutate(self, pkt, m):
        b = bytearray(pkt)
        k = m["kind"]
        if k == "flip":
            bit = m["bit"] % (len(b) * 8)
            b[bit // 8] ^= 1 << (bit % 8)
            self._fire("bit_flip")
        elif k == "byte":
            p = m["pos"] % len(b)
            v = m["val"] & 0xFF
            if b[p] == v:
                v ^= 0xFF
            b[p] = v
            self._fire("byte_subst")
        elif k == "trunc":
            n = m["len"] % len(b)
            b = b[:max(n, 1)]
            self._fire("truncate")
        elif k == "multi":
            for p, v in m["edits"]:
                b[p % len(b)] ^= (v & 0xFF) or 1
            self._fire("multi_corrupt")
        return bytes(b)

    def _extra(self, conn, kind, key):
        """Unsolicited / nuisance messages."""
        if kind.startswith("unsol_raw:"):
            # an older report (given body) that the device still had queued: same segment, before the response
            self._fire("stale_report_before_response")
            return self.wrap(conn, self.make_frame(bytes.fromhex(kind[10:]), FT_QUERY), key)
        if kind == "unsol_state":
            self._fire("unsolicited_frame")
            return self.wrap(conn, self.state_frame(ftype=FT_QUERY), key)
        if kind == "unsol_state_report":
            # A report-typed (0x04) frame carrying the current state under id 0xC0
            self._fire("unsolicited_frame")
            return self.wrap(conn, self.state_frame(ftype=acmodel.FT_REPORT), key)
        if kind == "unsol_b5":
            self._fire("unsolicited_frame")
            body = acmodel.build_b5([(0x0010, b"\x01"), (0x0009, b"\x01"), (0x000A, b"\x01")])
            return self.wrap(conn, self.make_frame(body, acmodel.FT_NOTIFY5), key)
        if kind == "unknown_id":
            self._fire("unsolicited_frame")
            return self.wrap(conn, self.make_frame(bytes([0xA1]) + bytes(20), acmodel.FT_REPORT), key)
        if kind == "dup_prev":
            p = self.last_response.get(conn.cid)
            if p is not None:
                self._fire("dup_response")
            if p is not None and key is not None:
                # re-wrap (new counter) the same inner packet is not possible without the inner; resend as is
                return p
            return p
        return None

    # --- application layer ----------------------------------------------------------------------
    def make_frame(self, body, ftype):
        if not self.fixed_msg_id:
            self.msg_id = (self.msg_id + 1) & 0xFF
        b = bytes(body) + bytes([self.msg_id])
        b = codec.body_with_crc(b) if self.check_style == "crc" else codec.body_with_sum(b)
        return codec.frame_build(b, ftype)

    def state_frame(self, ftype=FT_QUERY, state=None, length=None):
        if self.raw_state is not None:
            # raw-report mode (C11): the report body is given; optionally without a message-id byte
            body, with_msgid = self.raw_state
            if with_msgid:
                return self.make_frame(body, ftype)
            b = codec.body_with_crc(body) if self.check_style == "crc" else codec.body_with_sum(body)
            return codec.frame_build(b, ftype)
        body = acmodel.encode_state(state or self.state, length or self.state_len)
        return self.make_frame(body, ftype)

    def handle(self, req, d):
        """Honest application behaviour: list of response frames for a parsed request."""
        body = req["body"]
        ftype = req["type"]
        if not body:
            return []
        cmd = body[0]
        if cmd == 0x40 and ftype == FT_CONTROL:
            try:
                st = acmodel.decode_control(body)
            except codec.RefError as e:
                self.violations.append(("control", str(e), body))
                return []
            self.controls.append(st)
            if getattr(self, "ack_mode", "new") == "old":
                # a unit that acknowledges with the state it had before executing the command (slow wake-up)
                ack = self.state_frame(ftype=FT_CONTROL)
                for f in acmodel.STATE_FIELDS:
                    self.state[f] = st[f]
                self._fire("control_acknowledged_with_previous_state")
                return [ack]
            for f in acmodel.STATE_FIELDS:
                self.state[f] = st[f]
            return [self.state_frame(ftype=FT_CONTROL)]
        if cmd == 0x41 and ftype == FT_QUERY:
            if len(body) >= 4 and body[1] == 0x21 and body[2] == 0x01:
                group = body[3] & 0x0F
                if group == 4:
                    data = self.energy if self.energy is not None else bytes(16)
                    return [self.make_frame(acmodel.group_body(4, data), FT_QUERY)]
                if group == 5:
                    data = self.humidity if self.humidity is not None else bytes(16)
                    return [self.make_frame(acmodel.group_body(5, data), FT_QUERY)]
                return []
            if len(body) >= 7 and body[4] == 0x02 and body[6] == 0x02:
                self.state["display_on"] = not self.state["display_on"]
                for k, v in (getattr(self, "on_toggle_change", None) or {}).items():
                    self.state[k] = v          # someone uses the remote control at that very moment
                self._last_toggle_beep = bool(body[1] & 0x40)
                self.toggles = getattr(self, "toggles", 0) + 1
                return [self.state_frame(ftype=FT_QUERY)]
            return [self.state_frame(ftype=FT_QUERY)]
        if cmd == 0xB5 and ftype == FT_QUERY:
            page = 0
            if len(body) >= 3 and body[1] == 0x01 and body[2] == 0x01:
                page = 1
                if bytes(body[:4]) != b"\xb5\x01\x01\x01":
                    # the documented selector of the additional page is b5 01 01 01: a unit answers nothing else
                    self.violations.append(("b5", "additional-page query is not b5 01 01 01", body))
                    return []
            elif bytes(body[:3]) != b"\xb5\x01\x00":
                self.violations.append(("b5", "capability query is not b5 01 00", body))
                return []
            self.b5_queries = getattr(self, "b5_queries", []) + [bytes(body)]
            if page < len(self.caps_pages):
                recs, add = self.caps_pages[page]
                return [self.make_frame(acmodel.build_b5(recs, add), FT_QUERY)]
            return []
        if cmd == 0xB1 and ftype == FT_QUERY:
            try:
                ids = acmodel.parse_b1_query(body)
            except codec.RefError as e:
                self.violations.append(("b1", str(e), body))
                return []
            self.prop_queries.append(ids)
            items = []
            empty = getattr(self, "empty_props_once", None)
            for pid in ids:
                if empty and pid in empty:
                    # the unit has nothing to say about this property right now: a record without a value
                    items.append((pid, 0x00, b""))
                    self._fire("empty_property_record")
                    continue
                items.append((pid, 0x00, acmodel.prop_store_value_for_read(pid, self.props)))
            if empty:
                self.empty_props_once = None
            for vp in getattr(self, "volunteered_props", ()):
                # properties the unit reports without being asked (ids this client knows of but does not use)
                pos, pid, val = vp[0], vp[1], vp[2]
                items.insert(pos % (len(items) + 1), (pid, vp[3] if len(vp) > 3 else 0x00, bytes(val)))
                self._fire("unrequested_property_in_reply")
            return [self.make_frame(acmodel.build_prop_reply(0xB1, items), FT_QUERY)]
        if cmd == 0xB0 and ftype == FT_CONTROL:
            try:
                recs = acmodel.parse_b0_set(body)
            except codec.RefError as e:
                self.violations.append(("b0", str(e), body))
                return []
            self.prop_sets.append((len(self.log), [(p, bytes(v)) for p, v in recs]))
            items = []
            for pid, val in recs:
                if pid in getattr(self, "nak_props", ()):
                    # the unit refuses this write: execution-error result, value not stored
                    items.append((pid, 0x11, bytes(val)))
                    self._fire("property_write_refused")
                    continue
                res, rv = acmodel.apply_prop_set(pid, val, self.props, self.legacy_exclusive)
                items.append((pid, res, rv))
            for vp in getattr(self, "volunteered_props", ()):
                # records the unit adds to its acknowledgement without being asked (optionally flagged as failed)
                pos, pid, val = vp[0], vp[1], vp[2]
                items.insert(pos % (len(items) + 1), (pid, vp[3] if len(vp) > 3 else 0x00, bytes(val)))
                self._fire("unrequested_property_in_ack")
            return [self.make_frame(acmodel.build_prop_reply(0xB0, items), FT_CONTROL)]
        self.violations.append(("unknown_cmd", f"cmd 0x{cmd:02x} type {ftype}", body))
        return []
