"""UDP discovery responders for the simulated LAN segment (independent of msmart)."""
from . import codec


class RefHost:
    """One host on the segment. `replies` = [(delay_s, src_port, bytes)] sent once, when the first
    well-formed probe for this host arrives (delays are relative to that probe)."""

    def __init__(self, ip, replies, verify_probe=True, errors=()):
        self.ip = ip
        self.replies = replies
        self.verify_probe = verify_probe
        self.probes = []        # [(time, dst_port, wellformed)]
        self._answered = set()      # probers (endpoints) already answered: a unit answers each prober once
        self.errors = list(errors)      # [(delay_s, errno)] socket errors surfacing at the prober after the probe
        self.delivered_plan = []

    @property
    def answered(self):
        return bool(self._answered)

    @answered.setter
    def answered(self, v):
        if not v:
            self._answered.clear()

    def on_probe(self, net, endpoint, data, dst_port, dst_ip, overheard=False):
        ok = codec.probe_is_wellformed(data)
        if overheard:
            self.overheard = getattr(self, "overheard", 0) + 1
        else:
            self.probes.append((net.loop.time(), dst_port, ok))
        if self.verify_probe and not ok:
            return
        if id(endpoint) in self._answered:
            return
        self._answered.add(id(endpoint))
        for delay, eno in self.errors:
            endpoint.inject_error(ConnectionResetError(eno, "simulated socket error") if eno == 104
                                  else OSError(eno, "simulated socket error"), delay)
        for delay, src_port, payload in self.replies:
            endpoint.deliver(payload, (self.ip, src_port), delay)


def good_reply(version, device_id, ip, port, sn, name, extra=b""):
    body = codec.discovery_body(ip, port, sn, name, extra)
    if version == 3:
        return codec.discovery_reply_v3(device_id, body)
    return codec.discovery_reply_v2(device_id, body)
