"""Virtual-time asyncio event loop.

SimLoop is a real asyncio.BaseEventLoop (so Task, Future, Queue, wait_for, timeouts, gather,
Lock all run their real CPython code) whose clock is a number we own and whose "selector"
never blocks: when nothing is runnable it jumps the clock to the next timer.  All I/O
(create_connection / create_datagram_endpoint) is delegated to a SimNet object.

Nothing here draws randomness or reads a real clock.
"""
import asyncio
import heapq
from asyncio import base_events, events

TICK = 1.0 / (1 << 20)   # all simulator-generated times are multiples of this (exact in float)


class SimDeadlock(Exception):
    """Nothing runnable, no timer pending, but run_until_complete target not done."""


class SimStepLimit(Exception):
    """Loop iteration cap exceeded."""


class _FakeSelector:
    def __init__(self, loop):
        self._loop = loop

    def select(self, timeout=None):
        loop = self._loop
        if timeout is None:
            raise SimDeadlock("no ready callbacks and no timers")
        if timeout > 0:
            sched = loop._scheduled
            if sched:
                when = sched[0]._when
                if when - loop._now <= base_events.MAXIMUM_SELECT_TIMEOUT:
                    loop._now = when if when > loop._now else loop._now
                else:
                    loop._now += base_events.MAXIMUM_SELECT_TIMEOUT
            else:  # pragma: no cover - timeout>0 implies a timer
                loop._now += timeout
        return ()

    def close(self):
        pass


class SimLoop(asyncio.BaseEventLoop):
    def __init__(self, net=None, max_iterations=400_000):
        super().__init__()
        self._now = 0.0
        self._clock_resolution = 1e-9
        self._selector = _FakeSelector(self)
        self.net = net
        self.iterations = 0
        self.max_iterations = max_iterations
        self.unhandled = []          # (message, repr(exception)) from the loop exception handler
        self.set_exception_handler(self._on_unhandled)
        if net is not None:
            net.loop = self

    # --- clock -----------------------------------------------------------------------------
    def time(self):
        return self._now

    # --- BaseEventLoop plumbing ---------------------------------------------------------------
    def _process_events(self, event_list):
        pass

    def _write_to_self(self):
        pass

    def _run_once(self):
        self.iterations += 1
        if self.iterations > self.max_iterations:
            raise SimStepLimit(f"more than {self.max_iterations} loop iterations")
        super()._run_once()

    def _on_unhandled(self, loop, context):
        exc = context.get("exception")
        self.unhandled.append((context.get("message", ""), type(exc).__name__ if exc else None,
                               repr(exc) if exc else None))

    # --- I/O seams --------------------------------------------------------------------------
    async def create_connection(self, protocol_factory, host=None, port=None, **kwargs):
        return await self.net.tcp_connect(protocol_factory, host, port)

    async def create_datagram_endpoint(self, protocol_factory, local_addr=None, remote_addr=None, **kwargs):
        return await self.net.udp_endpoint(protocol_factory, local_addr, remote_addr)

    async def getaddrinfo(self, host, port, **kwargs):  # pragma: no cover - not used by msmart
        raise OSError("no DNS in simulation")

    # --- helpers ------------------------------------------------------------------------------
    def at(self, when, callback, *args):
        """Schedule callback at absolute virtual time (>= now)."""
        if when < self._now:
            when = self._now
        return self.call_at(when, callback, *args)

    def pending_timers(self):
        return [h for h in self._scheduled if not h._cancelled]

    def shutdown(self):
        """Cancel all tasks, run the loop until they are finished, close."""
        try:
            # cancel what is left; code that swallows cancellation gets a few more tries, then is abandoned
            for _attempt in range(3):
                tasks = [t for t in asyncio.all_tasks(self) if not t.done()]
                if not tasks:
                    break
                for t in tasks:
                    t.cancel()
                self.max_iterations = self.iterations + 500
                try:
                    self.run_until_complete(asyncio.gather(*tasks, return_exceptions=True))
                except (SimDeadlock, SimStepLimit, RuntimeError):
                    pass
        finally:
            events._set_running_loop(None)
            if not self.is_closed():
                self.close()


class SimPolicy(asyncio.DefaultEventLoopPolicy):
    """Event loop policy that hands out pre-built SimLoops (for cli.main -> asyncio.run)."""

    def __init__(self, factory):
        super().__init__()
        self._factory = factory

    def new_event_loop(self):
        return self._factory()


def quantize(t):
    """Round a time to the simulator tick so float sums stay exact."""
    return round(t * (1 << 20)) / (1 << 20)
