"""Simulated LAN: TCP connections and a UDP segment, driven entirely by the SimLoop clock.

The contract of asyncio.Transport that msmart relies on is reproduced from CPython 3.12's
selector_events.py (see DESIGN.md section 1.3):

 * create_connection returns after protocol.connection_made(transport) ran
 * transport.write(b"") is a no-op; write() after the connection is lost is silently dropped
 * transport.close() -> is_closing() True at once, no further data_received, connection_lost(None)
   via call_soon
 * peer FIN -> protocol.eof_received(); falsy result -> transport.close()
 * peer RST -> connection_lost(ConnectionResetError) via call_soon, is_closing() True at once
 * exception escaping protocol.data_received (TCP) -> loop exception handler + force close
 * exception escaping protocol.datagram_received (UDP) -> loop exception handler only (it is
   raised out of the reader Handle; the datagram transport stays open)

Servers (the reference device, byzantine peers) are plain objects with
    connect_policy(net, host, port) -> ("accept"|"refuse"|"hang"|"accept_close", delay)
    on_connect(conn) / on_data(conn, data) / on_client_close(conn)
and talk back through SimConn.send()/close().
"""
import asyncio
import os
from collections import Counter

from .loop import TICK, quantize

MIN_LAT = 1.0 / 1024     # default one-way latency (s)


class SimTransport(asyncio.Transport):
    def __init__(self, conn):
        super().__init__()
        self._conn = conn
        self._closing = False
        self._conn_lost = 0
        self._pending = []
        self._flush_scheduled = False
        self._paused = False
        self._wpaused = False

    def get_extra_info(self, name, default=None):
        v6 = ":" in str(self._conn.host)
        if name == "peername":
            # a peer that reset the connection before the transport was set up: getpeername() failed -> None
            if self._conn.no_peername:
                return None
            # AF_INET6 socket names are 4-tuples (host, port, flowinfo, scope_id)
            return (self._conn.host, self._conn.port, 0, 0) if v6 else (self._conn.host, self._conn.port)
        if name == "sockname":
            return ("fd00::1", 40000 + self._conn.cid, 0, 0) if v6 else ("192.0.2.1", 40000 + self._conn.cid)
        return default

    def is_closing(self):
        return self._closing

    def write(self, data):
        if not isinstance(data, (bytes, bytearray, memoryview)):
            raise TypeError("data argument must be a bytes-like object")
        if not data:
            return
        if self._conn_lost:
            self._conn_lost += 1
            self._conn.net.stats["write_after_lost"] += 1
            return
        bp = self._conn.net.backpressure
        if bp:
            # socket send buffer full: like the selector transport, keep a *reference* to the caller's buffer
            # (no copy) and flush it a little later - a caller that re-uses the buffer corrupts the queued data
            self._pending.append(data if isinstance(data, bytes) else memoryview(data))
            self._conn.net.stats["write_buffered_by_backpressure"] += 1
            if not self._flush_scheduled:
                self._flush_scheduled = True
                self._conn.net.loop.call_later(bp, self._flush_pending)
            if self._conn.net.zero_watermark and not self._wpaused:
                # a transport whose high-water mark is below this much buffered data (the limits are implementation
                # specific): the flow-control callback fires inside write(), as in _maybe_pause_protocol()
                self._wpaused = True
                self._conn.net.stats["pause_writing_called"] += 1
                self._flow_callback("pause_writing")
            return
        self._conn._client_wrote(bytes(data))

    def _flow_callback(self, name):
        try:
            getattr(self._conn.protocol, name)()
        except (SystemExit, KeyboardInterrupt):
            raise
        except BaseException as exc:
            self._conn.net.loop.call_exception_handler({"message": f"protocol.{name}() failed", "exception": exc,
                                                        "transport": self, "protocol": self._conn.protocol})

    def _flush_pending(self):
        self._flush_scheduled = False
        pending, self._pending = self._pending, []
        if self._conn_lost:
            return
        for d in pending:
            self._conn._client_wrote(bytes(d))
        if self._wpaused:
            self._wpaused = False
            self._flow_callback("resume_writing")

    def close(self):
        if self._closing:
            return
        self._closing = True
        self._conn_lost += 1
        self._conn.net.loop.call_soon(self._conn._call_connection_lost, None)
        self._conn._client_closed()

    def abort(self):
        self._force_close(None)

    def _force_close(self, exc):
        if self._conn_lost:
            return
        self._closing = True
        self._conn_lost += 1
        self._conn.net.loop.call_soon(self._conn._call_connection_lost, exc)
        self._conn._client_closed()

    # unused parts of the Transport API
    def can_write_eof(self):
        return False

    def pause_reading(self):
        # as the selector transport: the socket is no longer polled; bytes stay in the kernel buffer
        if self._closing or self._paused:
            return
        self._paused = True
        self._conn.net.stats["pause_reading"] += 1

    def resume_reading(self):
        if self._closing or not self._paused:
            return
        self._paused = False
        self._conn.net.stats["resume_reading"] += 1
        self._conn.net.loop.call_soon(self._conn._deliver_held)

    def is_reading(self):
        return not self._paused and not self._closing

    def set_write_buffer_limits(self, high=None, low=None):
        pass

    def get_write_buffer_size(self):
        return 0


class SimConn:
    """One TCP connection, as seen from the server side."""

    def __init__(self, net, cid, host, port, server, protocol):
        self.net = net
        self.cid = cid
        self.host = host
        self.port = port
        self.server = server
        self.protocol = protocol
        self.transport = SimTransport(self)
        self.opened_at = net.loop.time()
        self.client_closed = False      # client called close / connection force-closed
        self.peer_closed = False        # server sent FIN/RST (delivered)
        self.rx = []                    # [(time, bytes)] written by the client
        self.tx_stream = bytearray()    # everything the server ever queued for the client
        self.tx_delivered = 0           # stream offset already handed to data_received
        self._last_sched = 0.0          # latest scheduled delivery time (TCP ordering)
        self.deliveries = []            # [(time, start, end)] actual data_received calls
        self.state = {}                 # scratch for the server (session key, counters ...)
        self.hostile_until = 0.0        # latest scheduled hostile event (close / non-honest bytes)
        self.no_peername = False
        self._lost_called = False
        self._held_upto = None
        self._rst_scheduled = False
        self._sched_points = []         # (time, stream offset) of every scheduled delivery

    # --- client side events ------------------------------------------------------------------
    def _client_wrote(self, data):
        now = self.net.loop.time()
        if self.peer_closed:
            # the peer has closed (FIN) but the protocol asked to keep the transport open (eof_received() -> True):
            # the first write goes into the dead socket, the peer answers it with RST, the next one fails (EPIPE)
            self.net.trace("c>dead", self.cid, len(data))
            self.net.stats["write_to_half_closed"] += 1
            if not self._rst_scheduled:
                self._rst_scheduled = True
                self.net.loop.call_later(2 * MIN_LAT, self.transport._force_close,
                                         ConnectionResetError(104, "Connection reset by peer"))
            return
        self.rx.append((now, data))
        self.net.trace("c>s", self.cid, len(data), data)
        self.server.on_data(self, data)

    def _client_closed(self):
        if not self.client_closed:
            self.client_closed = True
            self.net.trace("c-close", self.cid)
            try:
                self.server.on_client_close(self)
            except AttributeError:
                pass

    def _call_connection_lost(self, exc):
        if self._lost_called:
            return
        self._lost_called = True
        self.protocol.connection_lost(exc)

    # --- server side API ---------------------------------------------------------------------
    @property
    def open(self):
        return not self.client_closed and not self.peer_closed

    def send(self, data, lat=MIN_LAT, cuts=None, gap=TICK, hold=False):
        """Queue bytes for the client.

        lat: delay from now until the first segment; cuts: sorted byte offsets inside `data`
        at which TCP splits it; gap: time between consecutive segments (>= TICK so the
        segmentation is exact); hold: do not schedule the final segment - it is coalesced
        with whatever is sent next (flushed after 0.25 s if nothing follows).
        """
        loop = self.net.loop
        base = len(self.tx_stream)
        self.tx_stream += data
        t = max(quantize(loop.time() + lat), self._last_sched + TICK)
        points = [c for c in (cuts or []) if 0 < c < len(data)]
        points = sorted(set(points)) + [len(data)]
        for i, p in enumerate(points):
            last = (i == len(points) - 1)
            if last and hold == "next":
                # kept back until the server sends something else on this connection (a unit that answers a
                # request only together with the next one)
                break
            if last and hold:
                t_flush = t + 0.25
                loop.at(t_flush, self._deliver_upto, base + p)
                # later sends may be scheduled before the flush: they deliver these bytes too
                break
            loop.at(t, self._deliver_upto, base + p)
            self._sched_points.append((t, base + p))
            self._last_sched = t
            t = t + max(gap, TICK)
        return self._last_sched

    def _deliver_held(self):
        if self._held_upto is not None:
            off, self._held_upto = self._held_upto, None
            self._deliver_upto(off)

    def _deliver_upto(self, offset):
        if offset <= self.tx_delivered:
            return
        if self.transport._paused and not (self.transport._closing or self.peer_closed):
            # reading is paused: everything that arrives meanwhile is read in one go after resume_reading()
            self._held_upto = max(self._held_upto or 0, offset)
            self.net.stats["held_while_paused"] += 1
            return
        if self.transport._closing or self.peer_closed:
            self.net.stats["dropped_after_close"] += 1
            self.tx_delivered = offset
            return
        data = bytes(self.tx_stream[self.tx_delivered:offset])
        start = self.tx_delivered
        self.tx_delivered = offset
        now = self.net.loop.time()
        self.deliveries.append((now, start, offset))
        self.net.trace("s>c", self.cid, len(data), data)
        try:
            self.protocol.data_received(data)
        except (SystemExit, KeyboardInterrupt):
            raise
        except BaseException as exc:   # mirror _SelectorSocketTransport._read_ready__data_received
            self.net.protocol_exceptions.append(("data_received", type(exc).__name__, repr(exc)))
            self.net.loop.call_exception_handler({
                "message": "Fatal error: protocol.data_received() call failed.",
                "exception": exc, "transport": self.transport, "protocol": self.protocol})
            self.transport._force_close(exc)

    def close(self, rst=False, lat=MIN_LAT, same_tick=False):
        """Server closes: FIN (default) or RST, delivered after everything already queued.

        same_tick: the FIN shares the last data segment's instant (both are processed in one loop iteration,
        before the reader task runs again) - the next operation then finds the connection already closed."""
        loop = self.net.loop
        t = max(quantize(loop.time() + lat), self._last_sched + (0 if same_tick else TICK))
        self._last_sched = t
        self.hostile_until = max(self.hostile_until, t)
        loop.at(t, self._deliver_close, rst)

    def _deliver_close(self, rst):
        if self.peer_closed or self.transport._conn_lost:
            return
        # TCP order: bytes scheduled for this very instant (or earlier) are read before the FIN / RST is seen
        now = self.net.loop.time()
        due = [off for (t, off) in self._sched_points if t <= now]
        if due and max(due) > self.tx_delivered and not rst:
            self._deliver_upto(max(due))
            if self.peer_closed or self.transport._conn_lost:
                return
        self.peer_closed = True
        self.net.trace("s-close", self.cid, "rst" if rst else "fin")
        if rst:
            self.transport._force_close(ConnectionResetError(104, "Connection reset by peer"))
        else:
            keep_open = None
            try:
                keep_open = self.protocol.eof_received()
            except BaseException as exc:
                self.net.loop.call_exception_handler({
                    "message": "Fatal error: protocol.eof_received() call failed.", "exception": exc})
                self.transport._force_close(exc)
                return
            if not keep_open:
                self.transport.close()


class FakeSocket:
    def __init__(self):
        self.options = []

    def setsockopt(self, *args):
        self.options.append(args)

    def getsockname(self):
        return ("0.0.0.0", 54321)


class SimDatagramTransport(asyncio.DatagramTransport):
    def __init__(self, net, protocol, eid):
        super().__init__()
        self.net = net
        self.protocol = protocol
        self.eid = eid
        self.sock = FakeSocket()
        self._closing = False
        self.sent = []        # [(time, data, addr)]
        self.received = []    # [(time, data, addr)] actually handed to the protocol

    def get_extra_info(self, name, default=None):
        if name == "socket":
            return self.sock
        if name == "sockname":
            return self.sock.getsockname()
        return default

    def is_closing(self):
        return self._closing

    def sendto(self, data, addr=None):
        if self._closing:
            return
        now = self.net.loop.time()
        self.sent.append((now, bytes(data), addr))
        self.net.trace("udp>", self.eid, addr[0], addr[1], bytes(data))
        self.net._udp_out(self, bytes(data), addr)

    def close(self):
        if self._closing:
            return
        self._closing = True
        self.net.trace("udp-close", self.eid)
        self.net.loop.call_soon(self.protocol.connection_lost, None)

    def abort(self):
        self.close()

    def deliver(self, data, addr, delay):
        """Schedule a datagram from addr=(ip, port) to arrive after `delay` seconds."""
        self.net.loop.at(quantize(self.net.loop.time() + delay), self._deliver, bytes(data), addr)

    def inject_error(self, exc, delay):
        """A socket-level error reported to the protocol (ICMP unreachable, ENOBUFS ...): error_received(exc)."""
        def _err():
            if not self._closing:
                self.net.trace("udp-err", self.eid, type(exc).__name__)
                self.net.stats["udp_error_received"] += 1
                self.protocol.error_received(exc)
        self.net.loop.at(quantize(self.net.loop.time() + delay), _err)

    def _deliver(self, data, addr):
        if self._closing:
            self.net.stats["udp_late_dropped"] += 1
            self.net.trace("udp-late", self.eid, addr[0])
            return
        now = self.net.loop.time()
        self.received.append((now, data, addr))
        self.net.trace("udp<", self.eid, addr[0], addr[1], data)
        # As in _SelectorDatagramTransport._read_ready: datagram_received is called outside the
        # try block, so an exception is reported by Handle._run via the loop's exception
        # handler and the transport stays open.
        try:
            self.protocol.datagram_received(data, addr)
        except (SystemExit, KeyboardInterrupt):
            raise
        except BaseException as exc:
            self.net.protocol_exceptions.append(("datagram_received", type(exc).__name__, repr(exc)))
            self.net.loop.call_exception_handler({
                "message": "Exception in callback datagram_received", "exception": exc})


class SimNet:
    def __init__(self, tracer=None):
        self.loop = None
        self.tcp_servers = {}     # (host, port) -> server ; (host, None) -> any port on host
        self.udp_hosts = {}       # ip -> host object with on_probe(net, endpoint, data, dst_addr)
        self.dns = {}             # host name -> ip
        self.conns = []
        self.endpoints = []
        self.connect_attempts = []   # [(time, host, port, outcome)]
        self.stats = Counter()
        self.backpressure = 0        # > 0: client writes are buffered by reference and flushed after that many seconds
        self.zero_watermark = False  # with backpressure: pause_writing()/resume_writing() around the buffered period
        self.protocol_exceptions = []
        self._tracer = tracer

    def trace(self, kind, *fields):
        if self._tracer is not None:
            self._tracer(self.loop.time() if self.loop else 0.0, kind, fields)

    # --- TCP ---------------------------------------------------------------------------------
    def listen(self, host, port, server):
        self.tcp_servers[(host, port)] = server

    async def tcp_connect(self, factory, host, port):
        loop = self.loop
        server = self.tcp_servers.get((host, port)) or self.tcp_servers.get((host, None))
        now = loop.time()
        if server is None:
            self.connect_attempts.append((now, host, port, "no_listener"))
            self.trace("connect", host, port, "no_listener")
            await asyncio.sleep(MIN_LAT)
            raise ConnectionRefusedError(111, f"Connect call failed ({host!r}, {port})")
        action, delay = server.connect_policy(self, host, port)
        self.connect_attempts.append((now, host, port, action))
        self.trace("connect", host, port, action)
        if action == "hang":
            self.stats["connect_hang"] += 1
            await loop.create_future()          # never completes; caller's timeout cancels us
        await asyncio.sleep(quantize(delay))
        if action == "refuse":
            self.stats["connect_refused"] += 1
            raise ConnectionRefusedError(111, f"Connect call failed ({host!r}, {port})")
        if action.startswith("oserror:"):
            # connect failures that are plain OSError (not ConnectionError): EHOSTUNREACH 113, ENETUNREACH 101,
            # EMFILE 24, ENOBUFS 105, EADDRNOTAVAIL 99 ...
            self.stats["connect_oserror"] += 1
            code = int(action.split(":")[1])
            raise OSError(code, os.strerror(code))
        protocol = factory()
        conn = SimConn(self, len(self.conns), host, port, server, protocol)
        self.conns.append(conn)
        if action == "accept_reset":
            conn.no_peername = True
        try:
            # asyncio calls connection_made from a loop callback: an exception there is reported to the loop's
            # exception handler and create_connection() still returns the (transport, protocol) pair
            protocol.connection_made(conn.transport)
        except (SystemExit, KeyboardInterrupt):
            raise
        except BaseException as exc:
            self.protocol_exceptions.append(("connection_made", type(exc).__name__, repr(exc)))
            loop.call_exception_handler({"message": "Exception in callback connection_made", "exception": exc})
        server.on_connect(conn)
        if action == "accept_close":
            self.stats["connect_then_close"] += 1
            conn.close(lat=MIN_LAT)
        if action == "accept_reset":
            self.stats["connect_then_reset"] += 1
            conn.close(rst=True, lat=TICK)
        return conn.transport, protocol

    # --- UDP ---------------------------------------------------------------------------------
    def add_udp_host(self, ip, host):
        self.udp_hosts[ip] = host

    async def udp_endpoint(self, factory, local_addr, remote_addr):
        protocol = factory()
        ep = SimDatagramTransport(self, protocol, len(self.endpoints))
        self.endpoints.append(ep)
        protocol.connection_made(ep)
        return ep, protocol

    def _udp_out(self, endpoint, data, addr):
        ip, port = addr
        ip = self.dns.get(ip, ip)          # sendto() resolves host names; replies carry the numeric address
        if ip == "255.255.255.255" or str(ip).endswith(".255"):
            # limited broadcast, or a directed broadcast to the segment (every simulated host is on it)
            targets = list(self.udp_hosts.items())
        else:
            targets = [(ip, self.udp_hosts[ip])] if ip in self.udp_hosts else []
        for hip, host in targets:
            host.on_probe(self, endpoint, data, port, hip)
        if ip != "255.255.255.255" and not str(ip).endswith(".255"):
            # hosts that talk to the prober's socket although the probe was not addressed to them (another
            # prober's broadcast made them answer, a scanner, a misdirected reply)
            for hip, host in list(self.udp_hosts.items()):
                if hip != ip and getattr(host, "chatty", False):
                    host.on_probe(self, endpoint, data, port, hip, overheard=True)
