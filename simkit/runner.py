"""Generic check runner: seeded plan generation, parallel execution, minimisation, replay,
evidence.  A check module provides:

    ID, LEVEL ("exploration" | "fault_enumeration"), RULE (str), ASSUMPTIONS (list[str])
    COMPONENTS = {"real": [...], "stub": [...]}
    space(tier) -> Space
    run(plan) -> Result
    simplify(plan) -> iterable of simpler plans            (optional)

Exit codes: 0 held (possibly KNOWN-FINDING lines), 1 VIOLATION, 2 harness error.
"""
import argparse
import faulthandler
import hashlib
import json
import multiprocessing
import os
import random
import subprocess
import sys
import time
import traceback
from collections import Counter
from concurrent.futures import ProcessPoolExecutor, as_completed

VERIF = os.path.dirname(os.path.dirname(os.path.abspath(__file__)))
REPO = os.environ.get("MSMART_REPO", "/repo")


class Result:
    """Outcome of one simulated run."""

    def __init__(self, world=None):
        self.ok = True
        self.sig = None          # violation signature (oracle id + discriminating fields)
        self.detail = ""
        self.digest = ""
        self.interleaving = ""
        self.fired = {}
        self.probes = {}
        self.key = None          # distinct-case key
        self.nontrivial = False
        self.sim_s = 0.0
        self.events = 0
        self.exempt = 0
        self.harness_error = None
        if world is not None:
            self.take(world)

    def take(self, world):
        self.digest = world.digest
        self.interleaving = world.interleaving
        self.sim_s = world.loop.time()
        self.events = world.n_events
        for k, v in world.fired.items():
            self.fired[k] = self.fired.get(k, 0) + v
        for k, v in world.probes.items():
            self.probes[k] = self.probes.get(k, 0) + v
        if getattr(world, "eager_tasks", False):
            self.probes["eager_task_factory_run"] = self.probes.get("eager_task_factory_run", 0) + 1
        if getattr(world, "debug_logging", False):
            self.probes["debug_logging_run"] = self.probes.get("debug_logging_run", 0) + 1

    def add_fired(self, d):
        for k, v in d.items():
            self.fired[k] = self.fired.get(k, 0) + v

    def fail(self, sig, detail=""):
        if self.ok:
            self.ok = False
            self.sig = sig
            self.detail = detail
        return self


class Space:
    """Indexable plan space: an ordered list of parts, each `n` plans produced by fn(j, rng)."""

    def __init__(self, check_id):
        self.check_id = check_id
        self.parts = []
        self.limits = {}       # part -> real-time budget per run (default: runner's)

    def add(self, name, n, fn, exhaustive=False, wall_limit=None):
        if n > 0:
            self.parts.append((name, n, fn, exhaustive))
            if wall_limit:
                self.limits[name] = wall_limit
        return self

    @property
    def total(self):
        return sum(p[1] for p in self.parts)

    def locate(self, i):
        for name, n, fn, ex in self.parts:
            if i < n:
                return name, i, fn
            i -= n
        raise IndexError(i)

    def plan(self, i, seed):
        name, j, fn = self.locate(i)
        h = hashlib.sha256(f"{self.check_id}:{seed}:{name}:{j}".encode()).digest()
        rng = random.Random(int.from_bytes(h[:8], "big"))
        p = fn(j, rng)
        p.setdefault("property", self.check_id)
        p.setdefault("part", name)
        if name in self.limits:
            p.setdefault("wall_limit", self.limits[name])
        p.setdefault("seed", int.from_bytes(h[8:14], "big"))
        p["index"] = i
        return p


# ----------------------------------------------------------------------------------------------
# known findings

def load_known():
    path = os.path.join(VERIF, "known_findings.json")
    try:
        with open(path) as f:
            return json.load(f)
    except FileNotFoundError:
        return {"findings": [], "fixed": []}


def match_known(known, prop, sig):
    for f in known.get("findings", []):
        if f["property"] == prop and sig is not None and sig.startswith(f["sig_prefix"]):
            return f
    return None


# ----------------------------------------------------------------------------------------------
# worker

_CHECK = None


def _load_check(check_id):
    global _CHECK
    if _CHECK is None or _CHECK.ID != check_id:
        import importlib
        _CHECK = importlib.import_module(f"checks.{check_id.lower()}")
    return _CHECK


class RunWallClockExceeded(KeyboardInterrupt):
    """Raised by SIGALRM inside a run that does not come back (e.g. an endless loop inside one callback).
    Derived from KeyboardInterrupt so that asyncio's callback wrapper re-raises it instead of logging it."""


_ALARM = {"fired": False}


def _on_alarm(signum, frame):
    _ALARM["fired"] = True
    raise RunWallClockExceeded()


def _safe_run(check, plan):
    import signal
    limit = float(plan.get("wall_limit", getattr(check, "RUN_WALL_LIMIT", 20.0)))
    use_alarm = hasattr(signal, "setitimer")
    _ALARM["fired"] = False
    try:
        if use_alarm:
            try:
                old = signal.signal(signal.SIGALRM, _on_alarm)
                signal.setitimer(signal.ITIMER_REAL, limit)
            except ValueError:          # not in the main thread
                use_alarm = False
        # the same number of Python frames is available below check.run() in a pool worker, in the minimiser and in
        # a fresh replay process: recursion-depth failures replay
        depth, f = 0, sys._getframe()
        while f is not None:
            depth, f = depth + 1, f.f_back
        old_limit = sys.getrecursionlimit()
        sys.setrecursionlimit(depth + 1000)
        try:
            r = check.run(plan)
        finally:
            sys.setrecursionlimit(old_limit)
            if use_alarm:
                signal.setitimer(signal.ITIMER_REAL, 0)
                signal.signal(signal.SIGALRM, old)
        if _ALARM["fired"]:
            raise RunWallClockExceeded()     # the exception was swallowed somewhere inside the run
    except RunWallClockExceeded:
        # step caps bound runs that keep yielding to the loop; this bounds code that never yields
        r = Result()
        r.ok = False
        r.sig = "liveness: run did not finish within its wall-clock budget (library code hangs)"
        r.detail = f"no return within {limit:.0f} s of real time"
        r.key = ("hang", repr(sorted(plan.items(), key=lambda kv: kv[0]))[:200])
        try:
            import asyncio
            asyncio.set_event_loop(None)
            from asyncio import events
            events._set_running_loop(None)
        except Exception:
            pass
    except Exception as e:   # harness failure, never a pass and never a violation
        r = Result()
        r.ok = False
        r.harness_error = f"{type(e).__name__}: {e}\n{traceback.format_exc()[-1500:]}"
    return r


def _work(args):
    check_id, tier, seed, lo, hi, canary_every = args[:6]
    stride, offset = (args[6], args[7]) if len(args) > 6 else (1, 0)
    faulthandler.dump_traceback_later(600, exit=True)
    check = _load_check(check_id)
    space = check.space(tier)
    agg = {
        "n": 0, "fired": Counter(), "probes": Counter(), "keys": set(), "nontrivial_keys": set(),
        "ileave": set(), "sim_s": 0.0, "events": 0, "fail": [], "harness": [], "digests": 0,
        "exempt": 0, "parts": Counter(), "samples": [],
    }
    for i in range(lo, hi):
        if stride > 1 and i % stride != offset:
            continue
        plan = space.plan(i, seed)
        if PYVARIANT:
            plan["pyvariant"] = PYVARIANT
        r = _safe_run(check, plan)
        agg["n"] += 1
        agg["parts"][plan["part"]] += 1
        if r.harness_error:
            agg["harness"].append((i, r.harness_error))
            continue
        if canary_every and i % canary_every == 0:
            r2 = _safe_run(check, space.plan(i, seed))
            if r2.digest != r.digest or r2.sig != r.sig:
                agg["harness"].append((i, f"nondeterminism: digest {r.digest[:12]} vs {r2.digest[:12]}, sig {r.sig} vs {r2.sig}"))
        agg["fired"].update(r.fired)
        agg["probes"].update(r.probes)
        k = r.key if r.key is not None else r.digest
        hk = hashlib.sha256(repr(k).encode()).digest()[:8]
        agg["keys"].add(hk)
        if r.nontrivial:
            agg["nontrivial_keys"].add(hk)
        agg["ileave"].add(r.interleaving)
        agg["sim_s"] += r.sim_s
        agg["events"] += r.events
        agg["exempt"] += r.exempt
        # order- and chunking-independent combination: sum of per-run hashes modulo 2^256
        agg["digests"] = (agg["digests"] + int.from_bytes(
            hashlib.sha256(f"{i}:{r.digest}:{r.sig};".encode()).digest(), "big")) % (1 << 256)
        if not r.ok:
            if len(agg["fail"]) < 40:
                agg["fail"].append((i, r.sig, r.detail[:2000]))
            else:
                agg["fail"].append((i, r.sig, ""))
        if len(agg["samples"]) < 1 and i == lo:
            agg["samples"].append(plan)
    faulthandler.cancel_dump_traceback_later()
    return lo, agg


# ----------------------------------------------------------------------------------------------
# minimisation

def _same(check, plan, sig):
    r = _safe_run(check, plan)
    return (not r.ok) and r.harness_error is None and r.sig == sig


def minimise(check, plan, sig, budget_s=60.0):
    t_end = time.time() + budget_s
    best = json.loads(json.dumps(plan))

    def attempt(cand):
        nonlocal best
        if time.time() > t_end:
            return False
        if _same(check, cand, sig):
            best = cand
            return True
        return False

    # 1. ddmin over ops
    ops = best.get("ops")
    if isinstance(ops, list) and len(ops) > 1:
        n = 2
        while len(best["ops"]) >= 2 and time.time() < t_end:
            ops = best["ops"]
            chunk = max(1, len(ops) // n)
            reduced = False
            for s in range(0, len(ops), chunk):
                cand = dict(best)
                cand["ops"] = ops[:s] + ops[s + chunk:]
                if cand["ops"] and attempt(cand):
                    n = max(n - 1, 2)
                    reduced = True
                    break
            if not reduced:
                if chunk == 1:
                    break
                n = min(n * 2, len(ops))
    # 2. per-op directive simplification
    changed = True
    while changed and time.time() < t_end:
        changed = False
        for oi, op in enumerate(best.get("ops", []) or []):
            for field in ("net", "hs", "conn"):
                lst = op.get(field)
                if not lst:
                    continue
                # drop the whole list
                cand = json.loads(json.dumps(best))
                cand["ops"][oi].pop(field)
                if attempt(cand):
                    changed = True
                    continue
                for di in range(len(lst) - 1, -1, -1):
                    cand = json.loads(json.dumps(best))
                    cur = cand["ops"][oi].get(field)
                    if cur is None or di >= len(cur):
                        continue
                    if isinstance(cur[di], dict) and cur[di]:
                        for k in list(cur[di].keys()):
                            c2 = json.loads(json.dumps(best))
                            c2["ops"][oi][field][di].pop(k, None)
                            if attempt(c2):
                                changed = True
        # 3. check-specific simplifications
        simp = getattr(check, "simplify", None)
        if simp is not None:
            for cand in simp(json.loads(json.dumps(best))):
                if time.time() > t_end:
                    break
                if attempt(cand):
                    changed = True
                    break
    return best


# ----------------------------------------------------------------------------------------------
# replay files

def repo_ident():
    try:
        head = subprocess.run(["git", "-C", REPO, "rev-parse", "HEAD"], capture_output=True, text=True,
                              timeout=20).stdout.strip()
        diff = subprocess.run(["git", "-C", REPO, "diff", "HEAD"], capture_output=True, timeout=20).stdout
        return {"head": head, "dirty_sha": hashlib.sha256(diff).hexdigest()[:16] if diff else None}
    except Exception:
        return {"head": None, "dirty_sha": None}


def write_replay(check, plan, sig, detail, original_index, seed):
    rdir = os.environ.get("VERIF_REPLAY_DIR") or os.path.join(VERIF, "replays")
    os.makedirs(rdir, exist_ok=True)
    path = os.path.join(rdir, f"{check.ID}-{seed}-{original_index}.json")
    trace = None
    tr = getattr(check, "trace", None)
    if tr is not None:
        try:
            trace = tr(plan)
        except Exception:
            trace = None
    with open(path, "w") as f:
        json.dump({"property": check.ID, "signature": sig, "detail": detail, "seed": seed,
                   "index": original_index, "plan": plan, "trace": trace, "repo": repo_ident(),
                   "python": sys.version.split()[0]}, f, indent=1, default=str)
    return path


def replay_in_fresh_process(check_id, path):
    """Re-execute a replay file in a fresh interpreter; returns the signature it prints."""
    env = dict(os.environ)
    env["PYTHONHASHSEED"] = "0"
    env.pop("VERIF_PYVARIANT_ACTIVE", None)      # the fresh interpreter picks its options from the replay file
    env.pop("VERIF_PYVARIANT", None)
    p = subprocess.run([sys.executable, "-B", os.path.join(VERIF, "check.py"), check_id, "--replay", path, "--sig-only"],
                       capture_output=True, text=True, timeout=600, env=env, cwd=VERIF)
    for line in p.stdout.splitlines():
        if line.startswith("SIG "):
            return line[4:].strip()
    return None


# ----------------------------------------------------------------------------------------------
# setup self-test: calibration already passed; determinism smoke on every check present

def selftest(seed):
    import glob
    import importlib
    bad = 0
    ids = sorted(os.path.basename(p)[:-3].upper() for p in glob.glob(os.path.join(VERIF, "checks", "c[0-9][0-9].py")))
    for cid in ids:
        check = importlib.import_module(f"checks.{cid.lower()}")
        space = check.space("quick")
        n = space.total
        idx = sorted({(k * 7919) % n for k in range(20)})
        for i in idx:
            a = _safe_run(check, space.plan(i, seed))
            b = _safe_run(check, space.plan(i, seed))
            if a.harness_error or b.harness_error:
                print(f"SELFTEST {cid} run {i}: harness error {a.harness_error or b.harness_error}")
                bad += 1
            elif a.digest != b.digest or a.sig != b.sig:
                print(f"SELFTEST {cid} run {i}: nondeterministic ({a.digest[:12]} vs {b.digest[:12]})")
                bad += 1
    print(f"SELFTEST: calibration ok, seams ok, determinism smoke on {len(ids)} checks: {'FAILED' if bad else 'ok'}")
    return 2 if bad else 0


# ----------------------------------------------------------------------------------------------
# main

PYVARIANT = os.environ.get("VERIF_PYVARIANT_ACTIVE", "")
VARIANTS = (("O", "python -O (asserts stripped)"), ("W", "python -b, warnings from msmart modules are errors"))


def _install_variant():
    if PYVARIANT == "W":
        import warnings
        warnings.filterwarnings("error", module=r"msmart(\..*)?$")
    if PYVARIANT == "O" and __debug__:
        raise RuntimeError("variant O requested but the interpreter runs with asserts enabled")


def _run_variants(check_id, tier, seed, jobs):
    """Re-run a sample of the plan space under other interpreter options; returns (summary, lines, exit)."""
    summary, lines, code = {}, [], 0
    stride = 9 if tier == "quick" else 6
    for k, (v, what) in enumerate(VARIANTS):
        env = dict(os.environ)
        env["VERIF_PYVARIANT"] = v
        env["VERIF_SEED"] = str(seed)
        cmd = [sys.executable, "-B", os.path.join(VERIF, "check.py"), check_id, "--tier", tier, "--no-evidence",
               "--stride", str(stride), "--offset", str((k * 4 + 1) % stride), "--jobs", str(jobs), "--variant-child"]
        p = subprocess.run(cmd, capture_output=True, text=True, env=env, cwd=VERIF)
        out = p.stdout.strip().splitlines()
        js = [l for l in out if l.startswith("VARIANT-SUMMARY ")]
        info = json.loads(js[-1][16:]) if js else {"runs": 0}
        info["what"] = what
        info["exit"] = p.returncode
        summary[v] = info
        if p.returncode != 0:
            code = max(code, p.returncode)
            lines.extend(l for l in out if l.startswith(("signature:", "VIOLATION", "HARNESS-ERROR", "  ")) or "x " in l[:14])
            if p.returncode == 2 and not js:
                lines.append(f"HARNESS-ERROR variant {v}: {p.stderr[-400:]}")
    return summary, lines, code


def main(argv=None):
    ap = argparse.ArgumentParser()
    ap.add_argument("--stride", type=int, default=1)
    ap.add_argument("--offset", type=int, default=0)
    ap.add_argument("--variant-child", action="store_true")
    ap.add_argument("--no-variants", action="store_true", help="skip the passes under other interpreter options")
    ap.add_argument("check_id")
    ap.add_argument("--tier", default=os.environ.get("VERIF_TIER", "quick"), choices=["quick", "thorough"])
    ap.add_argument("--replay")
    ap.add_argument("--sig-only", action="store_true")
    ap.add_argument("--limit", type=int, default=None, help="run only the first N plans (debug)")
    ap.add_argument("--jobs", type=int, default=int(os.environ.get("VERIF_JOBS", "16")))
    ap.add_argument("--no-evidence", action="store_true")
    ap.add_argument("--digest-only", action="store_true", help="print the batch digest (determinism self-test)")
    args = ap.parse_args(argv)
    check_id = args.check_id.upper()
    seed = int(os.environ.get("VERIF_SEED", "0") or 0)
    t0 = time.time()

    if args.replay and not PYVARIANT:
        # a replay recorded under other interpreter options is re-executed under them
        try:
            with open(args.replay) as f:
                want = json.load(f)["plan"].get("pyvariant", "")
        except Exception:
            want = ""
        if want:
            env = dict(os.environ)
            env["VERIF_PYVARIANT"] = want
            os.execve(sys.executable, [sys.executable, "-B", os.path.join(VERIF, "check.py")] + list(argv or sys.argv[1:]), env)
    try:
        sys.path.insert(0, VERIF)
        _install_variant()
        from simkit.seams import HarnessError, import_msmart
        try:
            import_msmart()
        except HarnessError as e:
            print(f"HARNESS-ERROR {e}")
            return 2
        from refmodel import calibrate
        cal = calibrate.run_all()
        if cal:
            print("HARNESS-ERROR calibration failed: " + "; ".join(cal))
            return 2
        if check_id == "SELFTEST":
            return selftest(seed)
        check = _load_check(check_id)
    except Exception as e:
        print(f"HARNESS-ERROR {type(e).__name__}: {e}")
        traceback.print_exc()
        return 2

    if args.replay:
        with open(args.replay) as f:
            rep = json.load(f)
        r = _safe_run(check, rep["plan"])
        if r.harness_error:
            print("HARNESS-ERROR " + r.harness_error)
            return 2
        if args.sig_only:
            print(f"SIG {r.sig}")
            return 0
        if not r.ok:
            known = match_known(load_known(), check_id, r.sig)
            if known:
                print(f"KNOWN-FINDING: property={check_id} {known['what']}")
                print(f"replayed signature: {r.sig}")
                return 0
            print(f"signature: {r.sig}\n{r.detail}")
            print(f"VIOLATION property={check_id} replay={os.path.abspath(args.replay)}")
            return 1
        print(f"replay of {args.replay}: property held (recorded signature was {rep.get('signature')})")
        return 0

    space = check.space(args.tier)
    total = space.total if args.limit is None else min(space.total, args.limit)
    jobs = max(1, min(args.jobs, total))
    chunk = max(1, min(2000, (total + jobs * 4 - 1) // (jobs * 4)))
    tasks = [(check_id, args.tier, seed, lo, min(lo + chunk, total), 97, args.stride, args.offset)
             for lo in range(0, total, chunk)]
    results = {}
    harness = []
    aborted_early = False
    try:
        if jobs == 1:
            for t in tasks:
                lo, agg = _work(t)
                results[lo] = agg
        else:
            ctx = multiprocessing.get_context("fork")
            with ProcessPoolExecutor(max_workers=jobs, mp_context=ctx) as ex:
                futs = [ex.submit(_work, t) for t in tasks]
                nfail = 0
                known0 = load_known()
                for fu in as_completed(futs, timeout=7 * 3600):
                    lo, agg = fu.result()
                    results[lo] = agg
                    # recorded known findings are not evidence of a new violation: they never end a run early
                    nfail += sum(1 for f in agg["fail"] if match_known(known0, check_id, f[1]) is None)
                    nhang = sum(1 for f in agg["fail"] if f[1] and f[1].startswith("liveness: run did not finish"))
                    if nfail >= 300 or nhang >= 3:
                        # plenty of evidence of a violation: do not burn the rest of the budget
                        for f2 in futs:
                            f2.cancel()
                        aborted_early = True
                        break
    except Exception as e:
        print(f"HARNESS-ERROR worker pool: {type(e).__name__}: {e}")
        return 2

    fired, probes, parts = Counter(), Counter(), Counter()
    keys, nkeys, ileave = set(), set(), set()
    sim_s = 0.0
    events = 0
    n = 0
    exempt = 0
    fails = []
    dig = 0
    samples = []
    for lo in sorted(results):
        a = results[lo]
        n += a["n"]
        fired.update(a["fired"])
        probes.update(a["probes"])
        parts.update(a["parts"])
        keys |= a["keys"]
        nkeys |= a["nontrivial_keys"]
        ileave |= a["ileave"]
        sim_s += a["sim_s"]
        events += a["events"]
        exempt += a["exempt"]
        fails.extend(a["fail"])
        harness.extend(a["harness"])
        dig = (dig + a["digests"]) % (1 << 256)
        if len(samples) < 4:
            samples.extend(a["samples"])
    batch_digest = f"{dig:064x}"
    if args.digest_only:
        print(f"DIGEST {check_id} {args.tier} seed={seed} n={n} {batch_digest}")
        return 0 if not harness else 2

    if harness:
        for i, msg in harness[:5]:
            print(f"HARNESS-ERROR run {i}: {msg}")
        if not fails:
            return 2
        # some runs could not be judged, others produced violations: the violations are reported (they are
        # replayed in a fresh process before being believed); the unjudged runs are listed above

    # classify failures
    known = load_known()
    known_hits = Counter()
    new_fails = []
    for i, sig, detail in fails:
        k = match_known(known, check_id, sig)
        if k is not None:
            known_hits[k["sig_prefix"]] += 1
        else:
            new_fails.append((i, sig, detail))

    exit_code = 0
    violation_lines = []
    if new_fails:
        hist = Counter(sig for _i, sig, _d in new_fails)
        for sig, cnt in hist.most_common(12):
            print(f"  {cnt:7d} x {sig}")
        # one replay per distinct signature (up to 3), minimised, verified in a fresh process
        by_sig = {}
        for i, sig, detail in sorted(new_fails):
            by_sig.setdefault(sig, (i, detail))
        for sig, (i, detail) in list(by_sig.items())[:3]:
            plan = space.plan(i, seed)
            if PYVARIANT:
                plan["pyvariant"] = PYVARIANT
            small = minimise(check, plan, sig, budget_s=45.0 if args.tier == "quick" else 180.0)
            if PYVARIANT:
                small["pyvariant"] = PYVARIANT
            r = _safe_run(check, small)
            path = write_replay(check, small, sig, r.detail or detail, i, seed)
            got = replay_in_fresh_process(check_id, path)
            if got != sig:
                print(f"HARNESS-ERROR violation {sig!r} (run {i}) did not replay in a fresh process (got {got!r}); file {path}")
                exit_code = 2
                continue
            print(f"signature: {sig}")
            print((r.detail or detail)[:1500])
            violation_lines.append(f"VIOLATION property={check_id} replay={path}")
        if violation_lines:
            exit_code = 1

    for f in known.get("findings", []):
        if f["property"] == check_id:
            hits = known_hits.get(f["sig_prefix"], 0)
            print(f"KNOWN-FINDING: property={check_id} {f['what']} (reproduced {hits}x in this run)")

    variant_summary = {}
    if (not PYVARIANT and not args.variant_child and not args.no_variants and args.limit is None
            and exit_code == 0 and not harness and os.environ.get("VERIF_NO_VARIANTS") != "1"):
        variant_summary, vlines, vcode = _run_variants(check_id, args.tier, seed, jobs)
        for l in vlines:
            if l.startswith("VIOLATION"):
                violation_lines.append(l)
            else:
                print(l)
        exit_code = max(exit_code, vcode)
    if args.variant_child:
        print("VARIANT-SUMMARY " + json.dumps({"runs": n, "violations": len(new_fails), "variant": PYVARIANT}))
    wall = time.time() - t0
    if not args.no_evidence:
        sample_plans = [space.plan(j, seed) for j in sorted({0, total // 3, (2 * total) // 3, total - 1})][:4]
        ev = {
            "property_id": check_id,
            "tier": args.tier,
            "seed": seed,
            "level": check.LEVEL,
            "coverage": {
                "evaluations": n,
                "distinct_nontrivial": len(nkeys),
                "distinct_cases": len(keys),
                "rule": check.RULE,
                "samples": sample_plans,
                "exhaustive": False,
                "parts": {name: {"plans": cnt, "exhaustive_enumeration": ex}
                          for (name, cnt, _fn, ex) in space.parts},
                "runs_per_hour": int(n / wall * 3600) if wall > 0 else 0,
                "sim_seconds_total": round(sim_s, 3),
                "trace_events_total": events,
                "distinct_interleavings": len(ileave),
                "interleaving_measure": "SHA-256 over the sequence of (event kind, connection/endpoint id) of every network and harness event of a run",
                "faults_fired": dict(sorted(fired.items())),
                "probes": dict(sorted(probes.items())),
                "exempt_by_stated_rule": exempt,
                "known_findings_hit": {k: v for k, v in known_hits.items()},
                "components_real": check.COMPONENTS["real"],
                "components_stub": check.COMPONENTS["stub"],
                "batch_digest": batch_digest,
                "interpreter_variants": variant_summary,
                "jobs": jobs,
                "repo": repo_ident(),
            },
            "assumptions": check.ASSUMPTIONS,
            "wall_s": round(wall, 2),
            "violations": len(new_fails),
        }
        os.makedirs(os.path.join(VERIF, "evidence"), exist_ok=True)
        with open(os.path.join(VERIF, "evidence", f"{check_id}.json"), "w") as f:
            json.dump(ev, f, indent=1, default=str)

    print(f"{check_id} {args.tier}: {n} runs, {len(keys)} distinct, {len(nkeys)} nontrivial, "
          f"{len(ileave)} interleavings, {sum(fired.values())} faults fired, sim {sim_s:.0f}s, wall {wall:.1f}s, "
          f"violations {len(new_fails) + sum(v.get('violations', 0) for v in variant_summary.values())}, "
          f"known {sum(known_hits.values())}"
          + (f", variants {' '.join(k + ':' + str(v.get('runs', 0)) for k, v in variant_summary.items())}" if variant_summary else ""))
    for line in violation_lines:
        print(line)
    return exit_code
