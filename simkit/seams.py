"""Import msmart from $MSMART_REPO and rebind the module-level sources of nondeterminism.

Every seam is an existing module attribute or class attribute; nothing in /repo is edited.
A missing seam raises HarnessError (exit 2), never a violation.
"""
import datetime as _dt
import hashlib
import logging
import os
import sys


class HarnessError(Exception):
    pass


REPO = os.environ.get("MSMART_REPO", "/repo")

_imported = None


def import_msmart():
    """Import msmart from REPO (first on sys.path), return a namespace of the modules used."""
    global _imported
    if _imported is not None:
        return _imported
    sys.dont_write_bytecode = True
    if REPO not in sys.path:
        sys.path.insert(0, REPO)
    try:
        import msmart
        import msmart.lan
        import msmart.base_device
        import msmart.cloud
        import msmart.discover
        import msmart.cli
        import msmart.frame
        import msmart.const
        import msmart.device
        import msmart.device.AC.command
        import msmart.device.AC.device
    except Exception as e:  # import failure is a harness error
        raise HarnessError(f"cannot import msmart from {REPO}: {e!r}") from e
    got = os.path.realpath(os.path.dirname(os.path.dirname(msmart.__file__)))
    if got != os.path.realpath(REPO):
        raise HarnessError(f"msmart imported from {got}, expected {REPO}")
    for mod, names in ((msmart.lan, ("datetime", "get_random_bytes")),
                       (msmart.cloud, ("datetime", "token_hex", "token_urlsafe")),
                       (msmart.base_device, ("time",))):
        for n in names:
            if not hasattr(mod, n):
                raise HarnessError(f"seam {mod.__name__}.{n} missing")
    # silence logging: handlers never touch a clock or PRNG
    logging.disable(logging.CRITICAL)
    root = logging.getLogger()
    for h in list(root.handlers):
        root.removeHandler(h)
    root.addHandler(logging.NullHandler())

    class NS:
        pass
    ns = NS()
    ns.msmart = msmart
    ns.lan = msmart.lan
    ns.base_device = msmart.base_device
    ns.cloud = msmart.cloud
    ns.discover = msmart.discover
    ns.cli = msmart.cli
    ns.frame = msmart.frame
    ns.const = msmart.const
    ns.command = msmart.device.AC.command
    ns.acdevice = msmart.device.AC.device
    ns.AC = msmart.device.AC.device.AirConditioner
    ns.Device = msmart.base_device.Device
    ns.LAN = msmart.lan.LAN
    _imported = ns
    return ns


class _FormatAndDrop(logging.Handler):
    """A handler that formats every record (as a real --debug run does) and throws the text away."""

    def emit(self, record):
        self.format(record)        # exceptions propagate to handleError below
        # and keep the last records, as logging.handlers.MemoryHandler / pytest's caplog / assertLogs do
        KEPT.append(record)
        if len(KEPT) > 400:
            del KEPT[:200]

    def handleError(self, record):
        # a StreamHandler prints a traceback and carries on; the library is still expected not to depend on it.
        # Count it: checks may look at seams.LOG_ERRORS.
        LOG_ERRORS.append(record.name)


LOG_ERRORS = []
KEPT = []
_DEBUG_HANDLER = _FormatAndDrop()
logging.raiseExceptions = True


def set_logging(debug):
    """Per run: either logging fully disabled, or every msmart logger at DEBUG with a formatting handler
    (the situation of `msmart-ng ... --debug` or a Home Assistant debug log)."""
    lg = logging.getLogger("msmart")
    del LOG_ERRORS[:]
    del KEPT[:]
    if debug:
        logging.disable(logging.NOTSET)
        lg.setLevel(logging.DEBUG)
        if _DEBUG_HANDLER not in lg.handlers:
            lg.addHandler(_DEBUG_HANDLER)
        lg.propagate = False
    else:
        logging.disable(logging.CRITICAL)
        lg.setLevel(logging.NOTSET)
        if _DEBUG_HANDLER in lg.handlers:
            lg.removeHandler(_DEBUG_HANDLER)
        lg.propagate = True
    # loggers cache isEnabledFor() results
    try:
        logging.Logger.manager._clear_cache()
    except Exception:
        pass


def debug_choice(seed):
    """One run in eight is a debug-logging run; a pure function of the plan's seed."""
    if os.environ.get("VERIF_DEBUG_LOG") in ("0", "1"):
        return os.environ["VERIF_DEBUG_LOG"] == "1"
    return hashlib.sha256(b"dbg|" + str(seed).encode()).digest()[0] % 8 == 0


def eager_choice(seed):
    if os.environ.get("VERIF_EAGER_TASKS") in ("0", "1"):
        return os.environ["VERIF_EAGER_TASKS"] == "1"
    return hashlib.sha256(b"eager|" + str(seed).encode()).digest()[0] % 8 == 1


class DetRandom:
    """Deterministic byte/str streams keyed by (seed, label): a function of the plan only."""

    def __init__(self, seed):
        self.seed = str(seed).encode()
        self.counters = {}

    def bytes(self, label, n):
        c = self.counters.get(label, 0)
        out = b""
        while len(out) < n:
            out += hashlib.sha256(self.seed + b"|" + label.encode() + b"|" + str(c).encode()).digest()
            c += 1
        self.counters[label] = c
        return out[:n]


class SimClock:
    """Wall clock = epoch + loop virtual time + jump offset (seconds)."""

    def __init__(self, loop, epoch):
        self.loop = loop
        self.epoch = epoch          # datetime (aware, UTC)
        self.offset = 0.0

    def now(self):
        return self.epoch + _dt.timedelta(seconds=self.loop.time() + self.offset)

    def jump(self, seconds):
        self.offset += seconds

    def local_offset(self):
        """Seconds east of UTC of the simulated host's zone right now (tz = {"switch_at": seconds after the
        epoch, "before": offset, "after": offset}: one daylight-saving change during the run)."""
        tz = getattr(self, "tz", None)
        if not tz:
            return 0
        elapsed = self.loop.time() + self.offset
        return tz["before"] if elapsed < tz["switch_at"] else tz["after"]

    def timestamp(self):
        return self.now().timestamp()


def make_datetime_class(clock):
    class SimDateTime(_dt.datetime):
        @classmethod
        def now(cls, tz=None):
            n = clock.now()
            if tz is None:
                # naive local time of the simulated host: UTC unless the run configures a zone with a DST change
                n = (n + _dt.timedelta(seconds=clock.local_offset())).replace(tzinfo=None)
            return n
    return SimDateTime


class _TimeShim:
    def __init__(self, clock):
        self._clock = clock

    def time(self):
        return self._clock.timestamp()

    def __getattr__(self, name):  # anything else: real module
        import time as _t
        return getattr(_t, name)


_PRISTINE = None
_CONTAINERS = (set, dict, list, bytearray)


def _is_data_attr(k, v):
    import inspect
    if k.startswith("__"):
        return False
    if isinstance(v, (property, classmethod, staticmethod)) or inspect.isclass(v) or callable(v):
        return False
    if inspect.isfunction(v) or inspect.ismethoddescriptor(v) or inspect.isdatadescriptor(v):
        return False
    return True


def _msmart_classes():
    import enum
    import inspect
    ns = import_msmart()
    seen = {}
    mods = [ns.lan, ns.base_device, ns.cloud, ns.discover, ns.cli, ns.frame, ns.const, ns.command, ns.acdevice]

    def visit(cls):
        if id(cls) in seen or issubclass(cls, enum.Enum):
            return
        seen[id(cls)] = cls
        for v in list(vars(cls).values()):
            if inspect.isclass(v):
                visit(v)
    for m in mods:
        for v in list(vars(m).values()):
            if inspect.isclass(v) and getattr(v, "__module__", "").startswith("msmart"):
                visit(v)
    return list(seen.values())


def _class_level_state():
    """{cls: {name: pristine value}} for every data attribute stored on an msmart class.

    A run is a fresh process: state a class accumulates during one run (a shared set, a cache, a remembered
    digest) must not leak into the next one, whether the library has such state today or a change introduces it."""
    global _PRISTINE
    if _PRISTINE is None:
        import copy
        out = {}
        for cls in _msmart_classes():
            d = {}
            for k, v in list(vars(cls).items()):
                if _is_data_attr(k, v):
                    d[k] = copy.copy(v) if isinstance(v, _CONTAINERS) else v
            out[cls] = d
        _PRISTINE = out
    return _PRISTINE


_FUNCS = None


def _msmart_functions():
    """Every function object reachable from msmart modules/classes (incl. property accessors and __wrapped__)."""
    global _FUNCS
    if _FUNCS is None:
        import inspect
        ns = import_msmart()
        seen = {}

        def add(f):
            while f is not None and inspect.isfunction(f) and id(f) not in seen:
                seen[id(f)] = (f, dict(f.__dict__))
                f = getattr(f, "__wrapped__", None)
        mods = [ns.lan, ns.base_device, ns.cloud, ns.discover, ns.cli, ns.frame, ns.const, ns.command, ns.acdevice,
                sys.modules.get("msmart.utils")]
        for m in mods:
            if m is None:
                continue
            for v in list(vars(m).values()):
                if inspect.isfunction(v) and getattr(v, "__module__", "").startswith("msmart"):
                    add(v)
        for cls in _msmart_classes():
            for v in list(vars(cls).values()):
                if isinstance(v, property):
                    for acc in (v.fget, v.fset, v.fdel):
                        add(acc)
                elif isinstance(v, (classmethod, staticmethod)):
                    add(v.__func__)
                else:
                    add(v)
        _FUNCS = list(seen.values())
    return _FUNCS


_MODULE_STATE = None
_SIMPLE = (type(None), bool, int, float, str, bytes, tuple, frozenset)


def _module_level_state():
    """[(module, name, pristine)] for every module-level global of an msmart module that is a mutable container or a
    plain value (a scheme list that is reordered, a remembered flag, a cache dict ...), and every object with a
    cache_clear() method (functools caches) reachable from modules and classes."""
    global _MODULE_STATE
    if _MODULE_STATE is None:
        import copy
        import_msmart()
        glob, caches = [], []
        for mname, m in list(sys.modules.items()):
            if not (mname == "msmart" or mname.startswith("msmart.")) or m is None:
                continue
            for k, v in list(vars(m).items()):
                if k.startswith("__"):
                    continue
                if isinstance(v, _CONTAINERS):
                    glob.append((m, k, v, copy.deepcopy(v)))
                elif isinstance(v, _SIMPLE):
                    glob.append((m, k, None, v))
                if callable(getattr(v, "cache_clear", None)):
                    caches.append(v)
        for cls in _msmart_classes():
            for v in list(vars(cls).values()):
                for acc in ((v.fget, v.fset, v.fdel) if isinstance(v, property) else (getattr(v, "__func__", v),)):
                    if callable(getattr(acc, "cache_clear", None)):
                        caches.append(acc)
        _MODULE_STATE = (glob, caches)
    return _MODULE_STATE


def _reset_module_state():
    import copy
    glob, caches = _module_level_state()
    for m, k, obj, pristine in glob:
        cur = vars(m).get(k, None)
        if obj is not None:
            # a container: restored in place (other modules may hold a reference to the same object)
            if cur is not obj:
                setattr(m, k, obj)
            if obj != pristine:
                if isinstance(obj, (list, bytearray)):
                    obj[:] = copy.deepcopy(pristine)
                else:
                    obj.clear()
                    obj.update(copy.deepcopy(pristine))
        elif cur is not pristine and isinstance(cur, _SIMPLE) and cur != pristine:
            setattr(m, k, pristine)
    for c in caches:
        try:
            c.cache_clear()
        except Exception:
            pass


def _reset_class_state():
    import copy
    _reset_module_state()
    for f, pristine in _msmart_functions():
        if f.__dict__ != pristine:
            f.__dict__.clear()
            f.__dict__.update(pristine)
    for cls, d in _class_level_state().items():
        for k, v in list(vars(cls).items()):
            if _is_data_attr(k, v) and k not in d:
                try:
                    delattr(cls, k)           # attribute created at run time
                except (AttributeError, TypeError):
                    pass
        for k, v in d.items():
            cur = vars(cls).get(k, None)
            if isinstance(v, _CONTAINERS):
                setattr(cls, k, copy.copy(v))
            elif cur is not v:
                setattr(cls, k, v)


class Seams:
    """Context manager installing all seams for one run and restoring them afterwards."""

    def __init__(self, clock, rnd, msg_id_start=0):
        self.clock = clock
        self.rnd = rnd
        self.msg_id_start = msg_id_start
        self._saved = []

    def _set(self, obj, name, value):
        self._saved.append((obj, name, getattr(obj, name)))
        setattr(obj, name, value)

    def __enter__(self):
        ns = import_msmart()
        sdt = make_datetime_class(self.clock)
        rnd = self.rnd
        self._set(ns.lan, "datetime", sdt)
        self._set(ns.cloud, "datetime", sdt)
        self._set(ns.lan, "get_random_bytes", lambda n: rnd.bytes("pad", n))
        self._set(ns.base_device, "time", _TimeShim(self.clock))
        self._set(ns.cloud, "token_hex", lambda n=32: rnd.bytes("token_hex", n).hex())
        self._set(ns.cloud, "token_urlsafe", lambda n=32: rnd.bytes("token_urlsafe", n).hex())
        self._set(ns.cloud.BaseCloud, "DEVICE_ID", rnd.bytes("cloud_device_id", 8).hex())
        # process-global state: a run is a fresh process (unless this world continues the process of another one:
        # a second asyncio.run() in the same interpreter)
        if not getattr(self, "same_process", False):
            _reset_class_state()
        # every clock a (changed) library might read follows the simulation: time.monotonic()/perf_counter() are
        # the loop's virtual time, time.time() the simulated wall clock (restored on exit)
        import time as _time
        loop = self.clock.loop
        self._set(_time, "monotonic", lambda: loop.time())
        self._set(_time, "perf_counter", lambda: loop.time())
        self._set(_time, "monotonic_ns", lambda: int(loop.time() * 1e9))
        self._set(_time, "time", lambda: self.clock.timestamp())
        self._set(ns.command.Command, "_message_id", self.msg_id_start)
        D = ns.discover.Discover
        for name, val in (("_lock", None), ("_cloud", None), ("_account", None), ("_password", None),
                          ("_auto_connect", False), ("_region", ns.const.DEFAULT_CLOUD_REGION)):
            self._set(D, name, val)
        return self

    def __exit__(self, *exc):
        for obj, name, value in reversed(self._saved):
            setattr(obj, name, value)
        self._saved.clear()
        if not getattr(self, "keep_process_state", False):
            _reset_class_state()
        return False
