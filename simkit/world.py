"""One simulated world = one run: loop + net + clock + seams + event trace."""
import asyncio
import datetime as _dt
import hashlib

from .loop import SimLoop, SimDeadlock, SimStepLimit
from .net import SimNet
from .seams import DetRandom, Seams, SimClock, import_msmart, debug_choice, set_logging, eager_choice

DEFAULT_EPOCH = (2024, 5, 17, 10, 20, 30, 123456)


def _norm(x):
    if isinstance(x, (bytes, bytearray, memoryview)):
        return bytes(x).hex()
    if isinstance(x, (list, tuple)):
        return [_norm(i) for i in x]
    if isinstance(x, dict):
        return {str(k): _norm(v) for k, v in sorted(x.items(), key=lambda kv: str(kv[0]))}
    if isinstance(x, float):
        return repr(x)
    return x


class World:
    def __init__(self, seed, epoch=DEFAULT_EPOCH, msg_id_start=0, max_iterations=20_000):
        self.ns = import_msmart()
        self.debug_logging = debug_choice(seed)
        set_logging(self.debug_logging)
        self._h = hashlib.sha256()
        self._kinds = hashlib.sha256()
        self.n_events = 0
        self.trace_log = None      # set to [] to keep a readable trace (replay / samples)
        self.net = SimNet(tracer=self._trace)
        self.loop = SimLoop(self.net, max_iterations=max_iterations)
        # one run in eight uses the eager task factory (Python >= 3.12; what Home Assistant configures): a new task
        # runs up to its first suspension inside create_task()
        self.eager_tasks = eager_choice(seed) and hasattr(asyncio, "eager_task_factory")
        if self.eager_tasks:
            self.loop.set_task_factory(asyncio.eager_task_factory)
        y, mo, d, h, mi, s, us = epoch
        self.clock = SimClock(self.loop, _dt.datetime(y, mo, d, h, mi, s, us, tzinfo=_dt.timezone.utc))
        self.rnd = DetRandom(seed)
        self.seams = Seams(self.clock, self.rnd, msg_id_start)
        self.fired = {}
        self.probes = {}

    # --- trace ----------------------------------------------------------------------------------
    def _trace(self, t, kind, fields):
        self.n_events += 1
        rec = repr((repr(t), kind, _norm(fields)))
        self._h.update(rec.encode())
        self._kinds.update(kind.encode() + b"," + str(fields[0] if fields else "").encode() + b";")
        if self.trace_log is not None:
            self.trace_log.append([round(t, 7), kind, _norm(fields)])

    def note(self, kind, *fields):
        """Harness-level trace entry (op boundaries, injected events)."""
        self._trace(self.loop.time(), kind, fields)

    def fire(self, kind, n=1):
        self.fired[kind] = self.fired.get(kind, 0) + n

    def probe(self, name, n=1):
        self.probes[name] = self.probes.get(name, 0) + n

    @property
    def digest(self):
        return self._h.hexdigest()

    @property
    def interleaving(self):
        return self._kinds.hexdigest()[:16]

    # --- running ----------------------------------------------------------------------------------
    def run(self, make_coro):
        """Run make_coro(world) to completion on the simulated loop. Returns its result.

        SimDeadlock / SimStepLimit propagate to the caller (the check decides what they mean).
        """
        asyncio.set_event_loop(self.loop)
        try:
            with self.seams:
                try:
                    return self.loop.run_until_complete(make_coro(self))
                finally:
                    self.loop.shutdown()
        finally:
            asyncio.set_event_loop(None)


def run_sync(world, fn):
    """Run fn() (synchronous code that calls asyncio.run itself, e.g. cli.main) with an event-loop policy
    that hands out the world's SimLoop.  Returns fn's result; exceptions propagate."""
    from .loop import SimPolicy
    old = asyncio.get_event_loop_policy()
    handed = []

    def factory():
        if handed:
            raise RuntimeError("second event loop requested in one run")
        handed.append(True)
        return world.loop
    asyncio.set_event_loop_policy(SimPolicy(factory))
    try:
        with world.seams:
            try:
                return fn()
            finally:
                world.loop.shutdown()
    finally:
        asyncio.set_event_loop_policy(old)
        try:
            asyncio.set_event_loop(None)
        except Exception:
            pass


class Outcome:
    __slots__ = ("kind", "value", "exc", "exc_type", "t0", "t1")

    def __init__(self, kind, value=None, exc=None, t0=0.0, t1=0.0):
        self.kind = kind            # "ok" | "exc" | "cancelled"
        self.value = value
        self.exc = exc
        self.exc_type = type(exc).__name__ if exc is not None else None
        self.t0 = t0
        self.t1 = t1

    def __repr__(self):
        if self.kind == "ok":
            return f"ok({self.value!r})"
        return f"{self.kind}({self.exc_type}: {self.exc})"


async def capture(world, coro, cancel_after=None):
    """Await coro, capturing any exception.  cancel_after: cancel the task after that many
    virtual seconds (a harness-injected cancellation)."""
    loop = world.loop
    t0 = loop.time()
    task = loop.create_task(coro)
    handle = None
    cancelled_by_us = []
    if cancel_after is not None:
        def _cancel():
            if not task.done():
                cancelled_by_us.append(True)
                world.note("cancel")
                task.cancel()
        handle = loop.call_later(cancel_after, _cancel)
    try:
        try:
            v = await task
            return Outcome("ok", v, None, t0, loop.time())
        except asyncio.CancelledError as e:
            if cancelled_by_us:
                return Outcome("cancelled", None, e, t0, loop.time())
            cur = asyncio.current_task()
            if task.done() and (cur is None or cur.cancelling() == 0):
                # nobody cancelled the call: the library let a CancelledError of its own escape to the caller
                return Outcome("exc", None, e, t0, loop.time())
            raise
        except (SimDeadlock, SimStepLimit):
            raise
        except BaseException as e:  # noqa: B902 - we want everything the library lets escape
            if isinstance(e, (KeyboardInterrupt,)):
                raise
            return Outcome("exc", None, e, t0, loop.time())
    finally:
        if handle is not None:
            handle.cancel()
