#!/venv/bin/python
"""Run every quick check against a behaviour-preserving change (false-alarm test).

usage: eval_benign.py <src_dir_with patch.diff meta.json> <id> [CHECK,CHECK...]
       (EVAL_BENIGN_MERGE=1 with a check list: merge into the recorded outcome instead of replacing it)
 1. in a scratch worktree of /repo: the patch applies and the baseline tests still pass (65)
 2. every quick check runs against that worktree (MSMART_REPO); /repo itself is never modified
Expected: exit 0 everywhere.  Exit 1 = a false alarm of the machinery (or the change is not benign after all -
to be decided by reading the replay); exit 2 = a white-box touch point is gone (harness error, not a verdict).
Results go to /verif/benign/<id>/ (patch.diff, meta.json with our fields).
"""
import json
import os
import shutil
import subprocess
import sys
import tempfile

VERIF = os.path.dirname(os.path.dirname(os.path.abspath(__file__)))
ALL = [f"C{i:02d}" for i in range(1, 21)]


def sh(cmd, **kw):
    return subprocess.run(cmd, shell=True, capture_output=True, text=True, **kw)


def main():
    src, bid = sys.argv[1], sys.argv[2]
    checks = sys.argv[3].split(",") if len(sys.argv) > 3 else ALL
    dst = os.path.join(VERIF, "benign", bid)
    os.makedirs(dst, exist_ok=True)
    for f in ("patch.diff", "meta.json"):
        if os.path.abspath(src) != os.path.abspath(dst):
            shutil.copy(os.path.join(src, f), os.path.join(dst, f))
    patch = os.path.join(dst, "patch.diff")
    meta = json.load(open(os.path.join(dst, "meta.json")))
    wt = tempfile.mkdtemp(prefix="benignwt_")
    os.rmdir(wt)
    results = {}
    conf = {}
    try:
        sh(f"git -C /repo worktree add -q --detach {wt} HEAD")
        r = sh(f"git -C {wt} apply {patch}")
        conf["applies"] = r.returncode == 0
        r = sh(f"cd {wt} && /venv/bin/python -m pytest -q -p no:cacheprovider msmart 2>&1 | tail -1")
        conf["tests"] = r.stdout.strip()
        conf["changed_lines"] = sum(1 for l in open(patch, errors="replace") if l[:1] in "+-" and l[:3] not in ("+++", "---"))
        if conf["applies"] and "65 passed" in conf["tests"]:
            env = dict(os.environ)
            env["MSMART_REPO"] = wt
            env["PYTHONPYCACHEPREFIX"] = os.path.join(wt, "_pyc")
            env["VERIF_REPLAY_DIR"] = os.path.join(dst, "replays")
            for c in checks:
                r = sh(f"cd {VERIF} && ./check {c} --tier quick --no-evidence", env=env)
                sig = [l for l in r.stdout.splitlines() if l.startswith("signature:")]
                tail = (r.stdout.strip().splitlines() or [r.stderr[-300:]])[-1][:200]
                results[c] = {"exit": r.returncode, "signature": sig[0][11:].strip() if sig else None, "summary": tail}
                if r.returncode != 0:
                    results[c]["stderr"] = r.stderr[-600:]
    finally:
        sh(f"git -C /repo worktree remove --force {wt}")
        shutil.rmtree(wt, ignore_errors=True)
    meta["confirmed_by_us"] = conf
    if len(sys.argv) > 3 and os.environ.get("EVAL_BENIGN_MERGE") == "1":
        # re-run of a subset: keep the recorded outcome of the other checks
        results = dict(meta.get("checks_run", {}), **results)
    meta["checks_run"] = results
    meta["alarms"] = [c for c, v in results.items() if v["exit"] == 1]
    meta["harness_errors"] = [c for c, v in results.items() if v["exit"] not in (0, 1)]
    json.dump(meta, open(os.path.join(dst, "meta.json"), "w"), indent=1)
    print(bid, conf, "| alarms:", meta["alarms"], "| harness errors:", meta["harness_errors"])
    for c, v in results.items():
        if v["exit"] != 0:
            print("   ", c, v["exit"], v["signature"], v.get("stderr", "")[-300:])


if __name__ == "__main__":
    main()
