#!/venv/bin/python
"""Confirm a seeded breaking change and run the checks against it.

usage: eval_seeded.py <src_dir_with patch.diff demo.py meta.json> <seed_id> <CHECK>[,<CHECK>...] [--tier quick]
 1. in a scratch worktree of /repo: patch applies, baseline tests still pass (65), demo fails with / passes without
 2. git -C /repo apply patch; run the checks; git -C /repo checkout -- .   (always undone)
Results are written to /verif/seeded/<seed_id>/ (patch.diff, demo.py, meta.json + our 'confirmed' and 'checks' fields).
"""
import json
import os
import shutil
import subprocess
import sys
import tempfile

VERIF = os.path.dirname(os.path.dirname(os.path.abspath(__file__)))


def sh(cmd, **kw):
    return subprocess.run(cmd, shell=True, capture_output=True, text=True, **kw)


def main():
    src, sid, checks = sys.argv[1], sys.argv[2], sys.argv[3].split(",")
    tier = "quick"
    if "--tier" in sys.argv:
        tier = sys.argv[sys.argv.index("--tier") + 1]
    dst = os.path.join(VERIF, "seeded", sid)
    os.makedirs(dst, exist_ok=True)
    for f in ("patch.diff", "demo.py", "meta.json"):
        if os.path.abspath(src) != os.path.abspath(dst):
            shutil.copy(os.path.join(src, f), os.path.join(dst, f))
    patch = os.path.join(dst, "patch.diff")
    meta = json.load(open(os.path.join(dst, "meta.json")))
    wt = tempfile.mkdtemp(prefix="evalwt_")
    os.rmdir(wt)
    confirmed = {}
    try:
        r = sh(f"git -C /repo worktree add -q --detach {wt} HEAD")
        r = sh(f"git -C {wt} apply {patch}")
        confirmed["applies"] = r.returncode == 0
        r = sh(f"cd {wt} && /venv/bin/python -m pytest -q -p no:cacheprovider msmart 2>&1 | tail -1")
        confirmed["tests"] = r.stdout.strip()
        r = sh(f"cd {dst} && PYTHONPATH={wt} timeout 600 /venv/bin/python demo.py")
        confirmed["demo_patched_exit"] = r.returncode
        sh(f"git -C {wt} checkout -- .")
        r = sh(f"cd {dst} && PYTHONPATH={wt} timeout 600 /venv/bin/python demo.py")
        confirmed["demo_clean_exit"] = r.returncode
    finally:
        sh(f"git -C /repo worktree remove --force {wt}")
        shutil.rmtree(wt, ignore_errors=True)
    confirmed["ok"] = (confirmed.get("applies") and "65 passed" in confirmed.get("tests", "")
                       and confirmed.get("demo_patched_exit") == 1 and confirmed.get("demo_clean_exit") == 0)
    results = {}
    if confirmed["ok"]:
        # run the checks against a scratch worktree with the patch applied (MSMART_REPO), so that /repo itself -
        # which background runs may be reading - is never modified; equivalent to apply / run / undo on /repo
        wt2 = tempfile.mkdtemp(prefix="evalwt_")
        os.rmdir(wt2)
        try:
            sh(f"git -C /repo worktree add -q --detach {wt2} HEAD")
            r = sh(f"git -C {wt2} apply {patch}")
            assert r.returncode == 0, r.stderr
            env = dict(os.environ)
            env["MSMART_REPO"] = wt2
            # replay files of this evaluation go to a directory of its own (several evaluations may run at once)
            env["VERIF_REPLAY_DIR"] = wt2 + "_replays"
            os.makedirs(env["VERIF_REPLAY_DIR"], exist_ok=True)
            for c in checks:
                r = sh(f"cd {VERIF} && ./check {c} --tier {tier} --no-evidence", env=env)
                sig = [l for l in r.stdout.splitlines() if l.startswith("signature:")]
                results[c] = {"exit": r.returncode, "signature": sig[0][11:].strip() if sig else None,
                              "summary": r.stdout.strip().splitlines()[-1][:200] if r.stdout.strip() else r.stderr[-200:]}
        finally:
            sh(f"git -C /repo worktree remove --force {wt2}")
            shutil.rmtree(wt2, ignore_errors=True)
            shutil.rmtree(wt2 + "_replays", ignore_errors=True)
    meta["confirmed_by_us"] = confirmed
    meta["checks_run"] = results
    meta["caught_by"] = [c for c, v in results.items() if v["exit"] == 1]
    json.dump(meta, open(os.path.join(dst, "meta.json"), "w"), indent=1)
    print(sid, "confirmed" if confirmed["ok"] else f"NOT CONFIRMED {confirmed}", "| caught by:", meta["caught_by"],
          "| missed by:", [c for c, v in results.items() if v["exit"] != 1])
    for c, v in results.items():
        print("   ", c, v["exit"], v["signature"])


if __name__ == "__main__":
    main()
