#!/venv/bin/python
"""Regenerate MANIFEST.json from the check modules present in checks/."""
import importlib
import json
import os
import sys

VERIF = os.path.dirname(os.path.dirname(os.path.abspath(__file__)))
sys.path.insert(0, VERIF)
os.environ.setdefault("PYTHONHASHSEED", "0")

props = [json.loads(l) for l in open(os.path.join(VERIF, "properties.jsonl"))]
checks = []
na = []
for p in props:
    pid = p["id"]
    path = os.path.join(VERIF, "checks", pid.lower() + ".py")
    if not os.path.exists(path):
        na.append({"property_id": pid, "reason": "check not built yet in this round (planned: DESIGN.md section 6); not a claim that simulation cannot apply"})
        continue
    m = importlib.import_module("checks." + pid.lower())
    checks.append({
        "property_id": pid,
        "quick_cmd": f"./check {pid} --tier quick",
        "thorough_cmd": f"./check {pid} --tier thorough",
        "evidence_file": f"/verif/evidence/{pid}.json",
        "replay_cmd_template": f"./check {pid} --replay {{path}}",
        "engine": "simkit",
        "level_claimed": {"category": m.LEVEL, "text": m.LEVEL_TEXT if hasattr(m, "LEVEL_TEXT") else m.RULE,
                          "design_ref": f"DESIGN.md section 6 ({pid})"},
        "level_note": "; ".join(m.ASSUMPTIONS),
        "technique": getattr(m, "TECHNIQUE", "deterministic simulation with fault injection: seeded search over simulated runs (virtual-time asyncio loop, simulated TCP/UDP, reference device model as oracle)"),
    })
man = {
    "version": 1,
    "setup_cmd": "./check SELFTEST --tier quick",
    "hooks": {
        "guard": "MSMART_VERIF",
        "enable": "no hook is needed: every seam is an existing module attribute / overridable loop method; the guard name is reserved and unused",
        "baseline_off_cmd": "cd /repo && /venv/bin/python -m pytest -ra -q -p no:cacheprovider --timeout=900 --continue-on-collection-errors",
        "source_commits": [],
        "add_only": True,
    },
    "engines": [{"name": "simkit", "path": "/verif/simkit", "serves_properties": [c["property_id"] for c in checks],
                 "kind_free_text": "deterministic simulator: virtual-time asyncio.BaseEventLoop subclass, simulated TCP/UDP transports with fault directives, seeded plan generation, ddmin minimisation, replay files; reference models in /verif/refmodel"}],
    "checks": checks,
    "not_applicable": na,
    "notes": "All checks run msmart from /repo's working tree (MSMART_REPO overrides for mutant self-tests). VERIF_SEED selects the seed. Exit 0 held / 1 VIOLATION / 2 harness error.",
}
json.dump(man, open(os.path.join(VERIF, "MANIFEST.json"), "w"), indent=1)
print(f"{len(checks)} checks, {len(na)} not claimed")
