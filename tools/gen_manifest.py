#!/venv/bin/python
"""Regenerate MANIFEST.json from the check modules present in checks/."""
import importlib
import json
import os
import sys

VERIF = os.path.dirname(os.path.dirname(os.path.abspath(__file__)))
sys.path.insert(0, VERIF)
os.environ.setdefault("PYTHONHASHSEED", "0")

LEVEL_TEXT = {
 "C01": "Seeded search over simulated end-to-end histories (real AirConditioner/LAN/protocol code, reference device as peer, simulated TCP with segmentation, unsolicited and duplicated frames, two instances, back pressure, idle periods across the 12 h expiry). Evidence, not proof: the state x schedule product is sampled; the three known-finding shapes are excluded from the verdict and reported separately.",
 "C02": "Every frame length 0..255 is swept completely against an independent codec for 16 boundary ids and 6 boundary clocks; contents, random ids, clock jumps and retransmissions are sampled. Exploration: a clean run shows interoperability on all lengths/paddings and the sampled ids/clocks, not for every 64-bit id.",
 "C03": "Complete single-fault enumeration per packet: every bit flip, every truncation length (both on a fresh connection and after an authentic copy was accepted) and, in the thorough tier, every position x all 255 substitutes for seven packet sizes; multi-byte and random packets sampled. The right level because the fault space per packet is finite and small.",
 "C04": "Complete enumeration of all placements of <= 3 cut points for fixed small streams (5 in quick, 11 in thorough, both gap modes) plus seeded random streams/segmentations incl. byte-by-byte, long pauses, idle-before, and a mid-stream flush. Exploration with exhaustive small cases: off-by-one reassembly bugs show up in small streams.",
 "C05": "Lengths 0..300 in both directions are enumerated against the independent codec; every bit of encrypted responses of lengths covering all 16 padding residues is flipped (protocol level and LAN level); counter histories of 4300/70000 packets and bursts under back pressure are run. Fault enumeration over single-bit tampering; keys are sampled.",
 "C06": "Every listed alteration of the handshake reply (all 512 body bit flips, length changes, every other type nibble, wrong key, error packet, silence, partial-then-genuine) is enumerated in fresh, stored and stored-expired scenarios, both credential forms; keys/tokens/nonces are sampled.",
 "C07": "Seeded search over histories of up to 10 events (sends, good/bad authentications, silence, error packets, FIN/RST, refused connects, clock jumps across both lifetimes, cancellations at drawn instants) with invariants I1-I4 evaluated over the device-side wire log, plus >65,536-packet sessions ending in an expiry and re-handshake. Exploration: histories are sampled, not enumerated.",
 "C08": "Seeded search over reply-timing patterns around the 2 s read timeout (incl. exact ties), all single faults and all ordered fault pairs from the catalogue (sampled parameters), retry budgets 1..4, both API levels, configured connection lifetimes, a packet-counter rollover at the retransmission; each followed by a fault-free exchange judged for recovery within a bound.",
 "C09": "Grammar-aware byzantine peer: a catalogue of structural mutations (every length/size boundary value, valid signatures/tags over hostile content, every type and pad nibble, truncations, peer-speaks-first, reply-then-close) is enumerated per phase and operation, parameters beyond the catalogue are sampled. Exploration of an unbounded input space with a complete pass over the catalogue.",
 "C10": "Complete per-field sweeps (62 set-points x 6 modes, 128 fan bytes, 192 flag combinations, 128 humidity values, swing x freeze x power x beep) with the other fields random, plus random full states, decoded by the vendor layout on the device side. The product space is sampled; each field's own domain is covered completely.",
 "C11": "Complete sweeps of each sensor byte x tenths digit x unit, all 32x32 set-point code pairs, all 256 values of each flag byte, body lengths 16..40, both check styles, with the remaining bytes random; compared with the vendor decode. Each byte's domain is covered completely, combinations are sampled.",
 "C12": "Every client frame of long fault-free histories (260 operations, ~600 commands, all command classes, every property value, both capability pages, varying profiles and message-id start values) is parsed by a strict reference parser, classified by the reference device and checked for id continuity. Exploration: command parameter combinations are sampled.",
 "C13": "For each response kind every byte position is corrupted (all 255 substitutes in thorough, 24 sampled in quick), without and with outer-checksum fix-up, alone and all-frames-corrupted, in a history where the device's data changed; attribute groups must stay put. Cases the stated validity rule cannot detect are counted as exempt.",
 "C14": "Every truncation length of every response kind (with/without message id), every response id, every frame type, a catalogue of sub-header frames are enumerated across operations, protocol versions and placements; count/size bytes, oversized and arbitrary well-formed bodies under learned capability profiles are sampled.",
 "C15": "Metamorphic check on real exchanges: list = in-order merge of single records, paged delivery = single delivery for the chosen split points; every known capability id x every value 0..255 (thorough) next to random neighbours, random lists incl. unknown, empty and odd-sized records.",
 "C16": "Seeded search over setter/apply/refresh/self-clean histories for every capability profile family, with device-side store changes, lost acknowledgements and late duplicate reports; wire oracle on every apply, read-back oracle on every refresh.",
 "C17": "All 256 appliance type bytes x letter case x reply version are enumerated; ids, ports, serials, names, inner addresses, source ports, host counts and single-host discovery are sampled. The probe itself is verified by every simulated host.",
 "C18": "All arrival orders of the copies of <= 3 hosts x <= 2 copies are enumerated (with bad-class assignments sampled), every bad class next to good hosts in every position; larger multisets, copies at the window edge and second runs in one process are sampled.",
 "C19": "Seeded search over accounts/passwords, token lists with near-miss ids, per-request fault sequences checked against a retry model, forced re-logins against a rotating-loginId server, and the discover -> cloud -> handshake -> refresh pipeline with 1-3 concurrent V3 hosts in either udpid byte order, optionally twice with the session dropped.",
 "C20": "Seeded search over valid command lines (every writable setting, names in random case, values, boolean spellings, 1-3 settings) against V2/V3 devices with random settable states (some chatty), and a complete pass over a catalogue of invalid names/values alone and next to valid settings; judged by exit status, device state delta and connection attempts. With --capabilities also display_on lines; one recorded known-finding shape (unnamed fan speed rewritten as AUTO after the display toggle's forced refresh) is excluded from the verdict and reported separately.",
}

props = [json.loads(l) for l in open(os.path.join(VERIF, "properties.jsonl"))]
checks = []
na = []
for p in props:
    pid = p["id"]
    path = os.path.join(VERIF, "checks", pid.lower() + ".py")
    if not os.path.exists(path):
        na.append({"property_id": pid, "reason": "check not built yet in this round (planned: DESIGN.md section 6); not a claim that simulation cannot apply"})
        continue
    m = importlib.import_module("checks." + pid.lower())
    checks.append({
        "property_id": pid,
        "quick_cmd": f"./check {pid} --tier quick",
        "thorough_cmd": f"./check {pid} --tier thorough",
        "evidence_file": f"/verif/evidence/{pid}.json",
        "replay_cmd_template": f"./check {pid} --replay {{path}}",
        "engine": "simkit",
        "level_claimed": {"category": m.LEVEL, "text": LEVEL_TEXT.get(pid, m.RULE),
                          "design_ref": f"DESIGN.md section 6 ({pid})"},
        "level_note": "; ".join(m.ASSUMPTIONS),
        "technique": getattr(m, "TECHNIQUE", "deterministic simulation with fault injection: seeded search over simulated runs (virtual-time asyncio loop, simulated TCP/UDP, reference device model as oracle)"),
    })
man = {
    "version": 1,
    "setup_cmd": "./check SELFTEST --tier quick",
    "hooks": {
        "guard": "MSMART_VERIF",
        "enable": "no hook is needed: every seam is an existing module attribute / overridable loop method; the guard name is reserved and unused",
        "baseline_off_cmd": "cd /repo && /venv/bin/python -m pytest -ra -q -p no:cacheprovider --timeout=900 --continue-on-collection-errors",
        "source_commits": [],
        "add_only": True,
    },
    "engines": [{"name": "simkit", "path": "/verif/simkit", "serves_properties": [c["property_id"] for c in checks],
                 "kind_free_text": "deterministic simulator: virtual-time asyncio.BaseEventLoop subclass, simulated TCP/UDP transports with fault directives, seeded plan generation, ddmin minimisation, replay files; reference models in /verif/refmodel"}],
    "checks": checks,
    "not_applicable": na,
    "notes": "All checks run msmart from /repo's working tree (MSMART_REPO overrides for mutant self-tests). VERIF_SEED selects the seed. Exit 0 held / 1 VIOLATION / 2 harness error.",
}
json.dump(man, open(os.path.join(VERIF, "MANIFEST.json"), "w"), indent=1)
print(f"{len(checks)} checks, {len(na)} not claimed")
