#!/bin/bash
# Re-run every kept seeded change against the check of the property it was written for (and any extra checks
# listed in its meta.json "checks_run").  Usage: tools/reeval_seeded.sh [id ...]
cd "$(dirname "$0")/.."
ids="$@"
[ -z "$ids" ] && ids=$(ls seeded)
for id in $ids; do
  prop=${id%%-*}
  extra=$(/venv/bin/python -c "import json;m=json.load(open('seeded/$id/meta.json'));print(','.join(sorted(set(list(m.get('checks_run',{}).keys())+['$prop']))))")
  /venv/bin/python tools/eval_seeded.py seeded/$id $id $extra
done
