#!/venv/bin/python
"""Line-ending preserving textual edit: repo_edit.py <file> <old> <new>  (\\n in patterns adapts to CRLF files)."""
import sys


def edit(path, old, new, count=1):
    raw = open(path, "rb").read()
    crlf = b"\r\n" in raw
    o, n = old.encode(), new.encode()
    if crlf:
        o = o.replace(b"\r\n", b"\n").replace(b"\n", b"\r\n")
        n = n.replace(b"\r\n", b"\n").replace(b"\n", b"\r\n")
    if raw.count(o) < 1:
        raise SystemExit(f"pattern not found in {path}")
    raw = raw.replace(o, n, count)
    open(path, "wb").write(raw)


if __name__ == "__main__":
    edit(sys.argv[1], sys.argv[2].encode().decode("unicode_escape"), sys.argv[3].encode().decode("unicode_escape"))
