#!/venv/bin/python
"""Determinism self-test: every check's batch digest (hash over per-run trace digests and verdicts) must be identical
across fresh interpreters, PYTHONHASHSEED values and worker counts.

usage: selftest_determinism.py [--limit N] [--checks C01,C02] [--seeds 0,7]
"""
import argparse
import os
import subprocess
import sys

VERIF = os.path.dirname(os.path.dirname(os.path.abspath(__file__)))


def digest(check, limit, hashseed, jobs, seed):
    env = dict(os.environ)
    env["PYTHONHASHSEED"] = str(hashseed)
    env["VERIF_SEED"] = str(seed)
    p = subprocess.run([os.path.join(VERIF, "check"), check, "--tier", "quick", "--digest-only", "--limit", str(limit),
                        "--jobs", str(jobs)], capture_output=True, text=True, env=env, cwd=VERIF)
    for line in p.stdout.splitlines():
        if line.startswith("DIGEST"):
            return line.split()[-1], p.returncode
    return "NO-DIGEST:" + (p.stdout + p.stderr)[-300:], p.returncode


def main():
    ap = argparse.ArgumentParser()
    ap.add_argument("--limit", type=int, default=600)
    ap.add_argument("--checks", default=",".join(f"C{i:02d}" for i in range(1, 21)))
    ap.add_argument("--seeds", default="0,7")
    a = ap.parse_args()
    bad = 0
    for c in a.checks.split(","):
        for seed in [int(s) for s in a.seeds.split(",")]:
            configs = [(0, 16), (0, 1), (12345, 16), (999, 5)]
            ds = [digest(c, a.limit, hs, j, seed) for hs, j in configs]
            same = len({d for d, _rc in ds}) == 1 and all(rc == 0 for _d, rc in ds)
            print(f"{c} seed={seed} limit={a.limit}: {'deterministic' if same else 'MISMATCH'} {ds[0][0][:16]}"
                  + ("" if same else " " + repr(ds)), flush=True)
            bad += 0 if same else 1
    print("DETERMINISM: " + ("ok" if not bad else f"{bad} MISMATCHES"))
    return 1 if bad else 0


if __name__ == "__main__":
    sys.exit(main())
