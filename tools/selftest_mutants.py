#!/venv/bin/python
"""Sensitivity self-test: apply one small mutation at a time to a scratch copy of /repo/msmart and
run the quick check(s) that should catch it.  Negative controls (semantically equivalent edits)
must NOT alarm.

usage: selftest_mutants.py [--only ID[,ID...]] [--check Cxx] [--tier quick]
"""
import argparse
import os
import shutil
import subprocess
import sys
import tempfile
import time

VERIF = os.path.dirname(os.path.dirname(os.path.abspath(__file__)))
LAN = "msmart/lan.py"
CMD = "msmart/device/AC/command.py"
DEV = "msmart/device/AC/device.py"
FRM = "msmart/frame.py"
DSC = "msmart/discover.py"
CLD = "msmart/cloud.py"
CLI = "msmart/cli.py"
BAS = "msmart/base_device.py"

# (id, file, old, new, [checks that must catch it])   - empty list = negative control (must stay green on `controls`)
MUTANTS = [
    ("c01-temp-mask", CMD, "temperature = (integral_temp - 16) & 0xF", "temperature = (integral_temp - 16) & 0x7", ["C01", "C10"]),
    ("c01-eco-purifier", CMD, "eco = 0x80 if self.eco else 0", "eco = 0x80 if self.purifier else 0", ["C01", "C10"]),
    ("c01-reverse-responses", DEV, "        for response in responses:\n            self._update_state(response)",
     "        for response in reversed(responses):\n            self._update_state(response)", ["C01"]),
    ("c01-id-big-endian", LAN, 'device_id.to_bytes(8, "little")', 'device_id.to_bytes(8, "big")', ["C01", "C02"]),
    ("c02-length-field", LAN, "length = 40 + len(encrypted_payload) + 16", "length = 40 + len(encrypted_payload)", ["C02"]),
    ("c02-decode-slice", LAN, "encrypted_frame = packet[40:-16]", "encrypted_frame = packet[40:-15]", ["C02"]),
    ("c02-centiseconds", LAN, "int(now.microsecond / 10000)", "int(now.microsecond / 100000)", ["C02"]),
    ("c03-sign-prefix", LAN, "if Security.sign(bytes(packet[:-16])) != rx_hash:",
     "if Security.sign(bytes(packet[:-16]))[:8] != rx_hash[:8]:", ["C03"]),
    ("c03-sign-dropped", LAN, "if Security.sign(bytes(packet[:-16])) != rx_hash:", "if False:", ["C03"]),
    ("c04-total-size", LAN, '"big") + 8', '"big") + 6', ["C04"]),
    ("c04-le", LAN, "if len(buf) < total_size:", "if len(buf) <= total_size:", ["C04"]),
    ("c04-carry", LAN, "buf[total_size:])", "buf[total_size+1:])", ["C04"]),
    ("c04-while-if", LAN, "while len(self._buffer) > 0:", "if len(self._buffer) > 0:", ["C04"]),
    ("c05-pad-len", LAN, "remainder = (len(data) + 2) % 16", "remainder = len(data) % 16", ["C05"]),
    ("c05-tag-ignored", LAN, "        if sha256(bytes(header) + decrypted_payload).digest() != rx_hash:", "        if False:", ["C05"]),
    ("c05-size-field", LAN, "length = len(data) + pad + 32", "length = len(data) + pad + 34", ["C05"]),
    ("c06-sha-inverted", LAN, "if sha256(decrypted_payload).digest() != rx_hash:", "if sha256(decrypted_payload).digest() == rx_hash:", ["C06"]),
    ("c06-store-before", LAN, "        # Attempt to authenticate\n        while retries > 0:",
     "        self._token = token\n        self._key = key\n        # Attempt to authenticate\n        while retries > 0:", ["C06"]),
    ("c06-sha-dropped", LAN, "        if sha256(decrypted_payload).digest() != rx_hash:\n            raise AuthenticationError(\n                \"Calculated and received SHA256 digest do not match.\")",
     "        pass", ["C06"]),
    ("c07-auth-expiry", LAN, "if datetime.now(timezone.utc) > self._local_key_expiration:",
     "if False and datetime.now(timezone.utc) > self._local_key_expiration:", ["C07"]),
    ("c07-conn-lifetime", LAN, "if self._connection_expiration and datetime.now(timezone.utc) > self._connection_expiration:", "if False:", ["C07"]),
    ("c07-no-reauth", LAN, "                and not self._protocol.authenticated):\n            await self.authenticate()",
     "                and not self._protocol.authenticated and self._token is None):\n            await self.authenticate()", ["C07", "C08"]),
    ("c08-retry-off-by-one", LAN, '                if retries > 1:\n                    _LOGGER.debug("Read timeout. Resending to %s.",',
     '                if retries > 0:\n                    _LOGGER.debug("Read timeout. Resending to %s.",', ["C08"]),
    ("c08-no-disconnect-on-timeout", LAN, "                else:\n                    self._disconnect()\n                    raise TimeoutError(\"No response from host.\") from e",
     "                else:\n                    raise TimeoutError(\"No response from host.\") from e", ["C08"]),
    ("c08-alive-ignores-closing", LAN, "if self._transport is None or self._transport.is_closing():", "if self._transport is None:", ["C08"]),
    ("c09-valueerror-back", LAN, "            except ValueError as e:\n                # Payload isn't block aligned or has invalid padding\n                raise ProtocolError(\n                    f\"Failed to decrypt packet payload: {e}\") from e",
     "            except ZeroDivisionError as e:\n                raise", ["C09"]),
    ("c10-swing-mask", CMD, "swing_mode = 0x30 | (self.swing_mode & 0x3F)", "swing_mode = 0x30 | (self.swing_mode & 0x0C)", ["C10"]),
    ("c10-humidity-mask", CMD, "humidity = self.target_humidity & 0x7F", "humidity = self.target_humidity & 0x3F", ["C10"]),
    ("c10-fahrenheit-sleep", CMD, "fahrenheit = 0x04 if self.fahrenheit else 0", "fahrenheit = 0x04 if self.fahrenheit and not self.sleep else 0", ["C10"]),
    ("c10-alt-mask", CMD, "temperature_alt = (integral_temp - 12) & 0x1F", "temperature_alt = (integral_temp - 12) & 0x0F", ["C10"]),
    ("neg-fractional-equiv", CMD, "temperature |= 0x10 if (fractional_temp > 0) else 0", "temperature |= 0x10 if (fractional_temp >= 0.5) else 0", []),
    ("c11-indoor-sign", CMD, "return int(temperature) + (decimals if temperature >= 0 else -decimals)", "return int(temperature) + decimals", ["C11"]),
    ("c11-follow-me-bit", CMD, "self.follow_me = bool(payload[8] & 0x80)", "self.follow_me = bool(payload[8] & 0x40)", ["C11", "C01"]),
    ("c11-humidity-len", CMD, "        if len(payload) < 20:\n            return", "        if len(payload) < 19:\n            return", ["C11"]),
    ("c11-filter-bit", CMD, "self.filter_alert = bool(payload[13] & 0x20)", "self.filter_alert = bool(payload[13] & 0x40)", ["C11"]),
    ("c12-crc-without-id", CMD, "        return super().tobytes(payload + bytes([crc8.calculate(payload)]))", "        return super().tobytes(payload + bytes([crc8.calculate(data)]))", ["C12"]),
    ("c12-id-no-wrap", CMD, "        return Command._message_id & 0xFF", "        return min(Command._message_id, 255)", ["C12"]),
    ("c12-length-byte", FRM, "header[1] = len(data) + self._HEADER_LENGTH", "header[1] = len(data) + self._HEADER_LENGTH - (1 if len(data) > 30 else 0)", ["C12"]),
    ("c13-validate-from-2", FRM, "checksum = Frame.checksum(frame[1:-1])", "checksum = (Frame.checksum(frame[2:-1]) - frame[1]) & 0xFF if frame[1] != 0x21 else frame[-1]", ["C13"]),
    ("c13-humidity-unvalidated", CMD, "if response_class != PropertiesResponse:", "if response_class not in (PropertiesResponse, HumidityResponse):", ["C13"]),
    ("c13-supported-from-raw", DEV, "self._supported = len(valid_responses) > 0", "self._supported = len(responses) > 0", ["C13"]),
    ("c14-indexerror-back", CMD, "        except (IndexError, struct.error) as e:", "        except (ZeroDivisionError, struct.error) as e:", ["C14"]),
    ("c15-unknown-skip", CMD, "                # Advanced to next capability\n                caps = caps[3+size:]\n                continue", "                # Advanced to next capability\n                caps = caps[4+size:]\n                continue", ["C15"]),
    ("c15-merge-reversed", CMD, "        self._capabilities.update(other._capabilities)", "        other._capabilities.update(self._capabilities)\n        self._capabilities = other._capabilities", ["C15"]),
    ("c16-no-clear", DEV, "        # Reset updated properties set\n        self._updated_properties.clear()", "        # Reset updated properties set", ["C16"]),
    ("c16-breeze-away-encoding", CMD, "            return bytes([2 if args[0] else 1])", "            return bytes([1 if args[0] else 0])", ["C16"]),
    ("c16-ieco-byte", CMD, "            return bytes([0, 1, args[0]]) + bytes(10)", "            return bytes([0, args[0], 1]) + bytes(10)", ["C16"]),
    ("c16-no-buzzer", DEV, "        properties[PropertyId.BUZZER] = self._beep_on", "        pass", ["C16"]),
    ("c17-id-slice", DSC, 'device_id = int.from_bytes(data_mv[20:26], "little")', 'device_id = int.from_bytes(data_mv[21:27], "little")', ["C17"]),
    ("c17-port-endian", DSC, 'port = int.from_bytes(decrypted_mv[4:6], "little")', 'port = int.from_bytes(decrypted_mv[4:6], "big")', ["C17"]),
    ("c17-reported-ip", DSC, 'return {"ip": ip, "port": port,', 'return {"ip": ip_address, "port": port,', ["C17"]),
    ("c18-no-dedup", DSC, "        if ip in self._discovered_ips:\n            return", "        if False:\n            return", ["C18"]),
    ("c19-token-prefix", CLD, '            if token["udpId"] == udpid:', '            if token["udpId"][:8] == udpid[:8]:', ["C19"]),
    ("c19-first-entry", CLD, '            if token["udpId"] == udpid:', "            if True:", ["C19"]),
    ("c19-sign-unsorted", CLD, "query = unquote_plus(urlencode(sorted(data.items())))", "query = unquote_plus(urlencode(list(data.items())))", ["C19"]),
    ("c20-no-upper", CLI, "new_properties[name] = attr_type[value.upper()]", "new_properties[name] = attr_type[value]", ["C20"]),
    ("c20-display-always", CLI, "        if display != device.display_on:", "        if True:", ["C20"]),
]


def make_copy(rel, old, new):
    d = tempfile.mkdtemp(prefix="msmart_mut_")
    shutil.copytree("/repo/msmart", os.path.join(d, "msmart"), ignore=shutil.ignore_patterns("__pycache__"))
    p = os.path.join(d, rel)
    s = open(p, newline="").read()
    crlf = "\r\n" in s
    if crlf:
        s = s.replace("\r\n", "\n")
    if s.count(old) < 1:
        shutil.rmtree(d)
        return None
    s = s.replace(old, new, 1)
    if crlf:
        s = s.replace("\n", "\r\n")
    open(p, "w", newline="").write(s)
    return d


def run_check(d, check, tier):
    env = dict(os.environ)
    env["MSMART_REPO"] = d
    p = subprocess.run([os.path.join(VERIF, "check"), check, "--tier", tier, "--no-evidence"],
                       capture_output=True, text=True, env=env, cwd=VERIF, timeout=3000)
    return p.returncode, p.stdout + p.stderr


def main():
    ap = argparse.ArgumentParser()
    ap.add_argument("--only")
    ap.add_argument("--check")
    ap.add_argument("--tier", default="quick")
    ap.add_argument("--controls", default="C01,C10", help="checks a negative control is run against")
    args = ap.parse_args()
    only = set(args.only.split(",")) if args.only else None
    ok = True
    rows = []
    for mid, rel, old, new, checks in MUTANTS:
        if only and mid not in only:
            continue
        if args.check and args.check not in checks and checks:
            continue
        have = [c for c in checks if os.path.exists(os.path.join(VERIF, "checks", c.lower() + ".py"))]
        if checks and not have:
            continue
        d = make_copy(rel, old, new)
        if d is None:
            print(f"{mid:32s} PATTERN-NOT-FOUND in {rel}")
            ok = False
            continue
        try:
            targets = have if checks else args.controls.split(",")
            for c in targets:
                t0 = time.time()
                rc, out = run_check(d, c, args.tier)
                want = 1 if checks else 0
                verdict = "ok" if rc == want else "MISSED" if checks else "FALSE-ALARM"
                if rc == 2:
                    verdict = "HARNESS-ERROR"
                if verdict != "ok":
                    ok = False
                sig = next((l for l in out.splitlines() if l.startswith("signature:")), "")
                rows.append((mid, c, rc, verdict))
                print(f"{mid:32s} {c} exit={rc} {verdict:13s} {time.time() - t0:5.1f}s {sig[:90]}", flush=True)
        finally:
            shutil.rmtree(d, ignore_errors=True)
    for f in os.listdir(os.path.join(VERIF, "replays")):
        if f.endswith(".json"):
            os.remove(os.path.join(VERIF, "replays", f))
    print("ALL OK" if ok else "SOME NOT OK")
    return 0 if ok else 1


if __name__ == "__main__":
    sys.exit(main())
