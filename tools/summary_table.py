#!/venv/bin/python
"""Print a markdown table of what the evidence files currently say (runs, rate, faults, interleavings)."""
import glob, json, os
V = os.path.dirname(os.path.dirname(os.path.abspath(__file__)))
print("| id | tier | level | runs | distinct non-trivial | distinct interleavings | faults fired (kinds) | sim seconds | wall s | runs/h |")
print("|---|---|---|---|---|---|---|---|---|---|")
for f in sorted(glob.glob(os.path.join(V, "evidence", "C*.json"))):
    e = json.load(open(f)); c = e["coverage"]
    ff = c.get("faults_fired", {})
    print(f"| {e['property_id']} | {e['tier']} | {e['level']} | {c['evaluations']} | {c['distinct_nontrivial']} | "
          f"{c.get('distinct_interleavings')} | {sum(ff.values())} ({len(ff)}) | {c.get('sim_seconds_total')} | {e['wall_s']} | {c.get('runs_per_hour')} |")
