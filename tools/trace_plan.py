#!/venv/bin/python
"""Print the event trace of a replay file / plan (debug aid): trace_plan.py <CHECK> <replay.json>"""
import json, os, sys
os.environ.setdefault("PYTHONHASHSEED", "0")
sys.path.insert(0, os.path.dirname(os.path.dirname(os.path.abspath(__file__))))
import importlib
from simkit import world
check = importlib.import_module("checks." + sys.argv[1].lower())
plan = json.load(open(sys.argv[2]))
plan = plan.get("plan", plan)
orig = world.World.__init__
def patched(self, *a, **k):
    orig(self, *a, **k)
    self.trace_log = []
    world.LAST = self
world.World.__init__ = patched
r = check.run(plan)
for t, kind, fields in world.LAST.trace_log:
    fs = [ (f[:40] + '..' if isinstance(f, str) and len(f) > 42 else f) for f in fields]
    print(f"{t:12.6f} {kind:10s} {fs}")
print("RESULT ok=", r.ok, "sig=", r.sig, "detail=", r.detail[:500])
