#!/venv/bin/python
"""Run checks against a scratch copy of /repo with one textual mutation applied.

usage: try_mutant.py <file-relative-to-repo> <old> <new> <CHECK> [<CHECK> ...] [--tier quick] [--limit N]
The copy lives under a mktemp dir outside /repo and /verif and is removed afterwards.
Prints, per check, the exit code and the last lines of output.
"""
import os
import shutil
import subprocess
import sys
import tempfile

VERIF = os.path.dirname(os.path.dirname(os.path.abspath(__file__)))


def make_copy(edits):
    d = tempfile.mkdtemp(prefix="msmart_mut_")
    shutil.copytree("/repo/msmart", os.path.join(d, "msmart"),
                    ignore=shutil.ignore_patterns("__pycache__"))
    for rel, old, new in edits:
        p = os.path.join(d, rel)
        s = open(p).read()
        if s.count(old) < 1:
            shutil.rmtree(d)
            raise SystemExit(f"pattern not found in {rel}: {old!r}")
        s = s.replace(old, new, 1)
        open(p, "w").write(s)
    return d


def run_check(d, check, tier="quick", extra=()):
    env = dict(os.environ)
    env["MSMART_REPO"] = d
    env["PYTHONPYCACHEPREFIX"] = os.path.join(d, "_pyc")
    p = subprocess.run([os.path.join(VERIF, "check"), check, "--tier", tier, "--no-evidence", *extra],
                       capture_output=True, text=True, env=env, cwd=VERIF)
    return p.returncode, p.stdout + p.stderr


def main():
    args = sys.argv[1:]
    tier = "quick"
    extra = []
    if "--tier" in args:
        i = args.index("--tier")
        tier = args[i + 1]
        del args[i:i + 2]
    if "--limit" in args:
        i = args.index("--limit")
        extra = ["--limit", args[i + 1]]
        del args[i:i + 2]
    rel, old, new = args[0], args[1], args[2]
    checks = args[3:]
    d = make_copy([(rel, old.encode().decode("unicode_escape"), new.encode().decode("unicode_escape"))])
    try:
        for c in checks:
            rc, out = run_check(d, c, tier, extra)
            tail = "\n".join(out.strip().splitlines()[-6:])
            print(f"== {c}: exit {rc}\n{tail}")
    finally:
        shutil.rmtree(d, ignore_errors=True)
        for f in os.listdir(os.path.join(VERIF, "replays")):
            pass


if __name__ == "__main__":
    main()
